#!/bin/bash
# usage: runk.sh <harness> [timeout]  -> one-line result
cd /verif/kn
h=$1; to=${2:-600}
s=$(date +%s)
out=$(CARGO_NET_OFFLINE=true timeout $to cargo kani -Z function-contracts -Z stubbing --harness $h --target-dir /verif/.build/kani-target 2>&1)
e=$(date +%s)
v=$(echo "$out" | grep -o "VERIFICATION:- [A-Z]*" | head -1)
c=$(echo "$out" | grep -o "\*\* [0-9]* of [0-9]* failed" | head -1)
cv=$(echo "$out" | grep -o "\*\* [0-9]* of [0-9]* cover properties satisfied" | head -1)
echo "$h: ${v:-NO-RESULT} [$c] [$cv] $((e-s))s"
if [ "$v" != "VERIFICATION:- SUCCESSFUL" ]; then echo "$out" | grep -E "Failed Checks|^error" | head -5; fi
