//! TLengthProtocolExt helpers (thrift/mod.rs): closure-taking length helpers that generated `size()` bodies call.
//! They use iterator adapters and `Fn` parameters, which Verus cannot ingest; bounded stand-ins on the real code.
use bytes::BytesMut;
use pilota::thrift::{compact::TCompactOutputProtocol, binary::TBinaryProtocol, TLengthProtocol, TLengthProtocolExt, TListIdentifier, TType};

/// (bounded: lists of exactly 3 elements) list_len == list header + the sum of the element lengths + list end, for
/// the compact protocol (variable-width elements) and the binary protocol; list_field_len adds the field header
#[kani::proof]
#[kani::unwind(8)]
fn bnd_len_ext_list() {
    let els: [i32; 3] = kani::any();
    {
        let mut b = BytesMut::new();
        let mut p = TCompactOutputProtocol::new(&mut b, false);
        let l = p.list_len(TType::I32, &els, |p, v| p.i32_len(*v));
        let want = p.list_begin_len(TListIdentifier { element_type: TType::I32, size: 3 })
            + p.i32_len(els[0]) + p.i32_len(els[1]) + p.i32_len(els[2]) + p.list_end_len();
        assert!(l == want);
    }
    {
        let mut b = BytesMut::new();
        let mut p = TBinaryProtocol::new(&mut b, false);
        let l = p.list_len(TType::I32, &els, |p, v| p.i32_len(*v));
        assert!(l == 5 + 12);
    }
    kani::cover!(els[0] == 1 && els[1] == 100000);
}
