//! A5: the byte-order intrinsics agree with the arithmetic spec used in vf/spec/prelude.rs
//! (byte_at(n, i) = (n / 256^i) % 256), for every value.
fn byte_at(n: u64, i: u32) -> u8 { ((n >> (8 * i)) & 0xff) as u8 }

#[kani::proof]
fn a5_int_bytes() {
    let a: i16 = kani::any();
    let n = a as u16 as u64;
    assert!(a.to_be_bytes() == [byte_at(n, 1), byte_at(n, 0)]);
    assert!(a.to_le_bytes() == [byte_at(n, 0), byte_at(n, 1)]);
    let b: i32 = kani::any();
    let n = b as u32 as u64;
    assert!(b.to_be_bytes() == [byte_at(n, 3), byte_at(n, 2), byte_at(n, 1), byte_at(n, 0)]);
    assert!(b.to_le_bytes() == [byte_at(n, 0), byte_at(n, 1), byte_at(n, 2), byte_at(n, 3)]);
    let c: i64 = kani::any();
    let n = c as u64;
    assert!(c.to_be_bytes() == [byte_at(n, 7), byte_at(n, 6), byte_at(n, 5), byte_at(n, 4), byte_at(n, 3), byte_at(n, 2), byte_at(n, 1), byte_at(n, 0)]);
    assert!(c.to_le_bytes() == [byte_at(n, 0), byte_at(n, 1), byte_at(n, 2), byte_at(n, 3), byte_at(n, 4), byte_at(n, 5), byte_at(n, 6), byte_at(n, 7)]);
    let d: u64 = kani::any();
    assert!(d.to_be_bytes() == [byte_at(d, 7), byte_at(d, 6), byte_at(d, 5), byte_at(d, 4), byte_at(d, 3), byte_at(d, 2), byte_at(d, 1), byte_at(d, 0)]);
    let e: u32 = kani::any();
    assert!(e.to_be_bytes() == [byte_at(e as u64, 3), byte_at(e as u64, 2), byte_at(e as u64, 1), byte_at(e as u64, 0)]);
    // two's complement: i -> u reinterpretation used by `tc`
    assert!((a as u16 as i32) == if a < 0 { a as i32 + 0x1_0000 } else { a as i32 });
    assert!((b as u32 as i64) == if b < 0 { b as i64 + 0x1_0000_0000 } else { b as i64 });
    kani::cover!(a < 0 && b < 0 && c < 0);
}
