//! C11: TBinaryUnsafeOutputProtocol<&mut BytesMut>, one primitive per harness: symbolic value,
//! optional byte already written through the unchecked writer (symbolic index), window of EXACTLY
//! the reported size placed between guard bytes.  Checked: bytes written == the Thrift binary
//! encoding (the same spec the checked writer is verified against in Verus), reported *_len ==
//! bytes written == index advance, nothing outside the window touched.
//! The BytesMut variant never touches `trans`; the window is a stack array.
use bytes::{BufMut, Bytes, BytesMut};
use pilota::thrift::{
    binary_unsafe::TBinaryUnsafeOutputProtocol, TLengthProtocol, TListIdentifier, TMapIdentifier, TOutputProtocol, TSetIdentifier, TType,
};

const GUARD: u8 = 0xEE;
type UP<'a> = TBinaryUnsafeOutputProtocol<&'a mut BytesMut>;

pub fn any_ttype() -> TType {
    let k: u8 = kani::any();
    match k % 14 {
        0 => TType::Stop, 1 => TType::Void, 2 => TType::Bool, 3 => TType::I8, 4 => TType::Double, 5 => TType::I16, 6 => TType::I32,
        7 => TType::I64, 8 => TType::Binary, 9 => TType::Struct, 10 => TType::Map, 11 => TType::Set, 12 => TType::List, _ => TType::Uuid,
    }
}
pub fn ttype_code(t: TType) -> u8 {
    match t { TType::Stop => 0, TType::Void => 1, TType::Bool => 2, TType::I8 => 3, TType::Double => 4, TType::I16 => 6, TType::I32 => 8,
              TType::I64 => 10, TType::Binary => 11, TType::Struct => 12, TType::Map => 13, TType::Set => 14, TType::List => 15, TType::Uuid => 16 }
}

/// run `f` on an unchecked writer whose window has exactly `need` (+1 if a lead byte is written
/// first) bytes; returns (memory, offset of the value)
fn run<const N: usize>(need: usize, f: impl FnOnce(&mut UP) -> usize) -> ([u8; N], usize) {
    let mut mem = [GUARD; N];
    let lead: bool = kani::any();
    let lead_byte: u8 = kani::any();
    let win = need + lead as usize;
    assert!(1 + win + 1 <= N);
    let mut trans = BytesMut::new();
    let idx;
    let reported;
    {
        let buf: &'static mut [u8] = unsafe { std::slice::from_raw_parts_mut(mem.as_mut_ptr().add(1), win) };
        let mut p = unsafe { TBinaryUnsafeOutputProtocol::new(&mut trans, buf, false) };
        if lead { p.write_byte(lead_byte).unwrap(); }
        reported = f(&mut p);
        idx = p.index();
    }
    assert!(reported == need);
    assert!(idx == win);
    assert!(mem[0] == GUARD);
    assert!(mem[1 + win] == GUARD);
    if lead { assert!(mem[1] == lead_byte); }
    kani::cover!(lead);
    kani::cover!(!lead);
    (mem, 1 + lead as usize)
}

#[kani::proof]
fn c11_w_bool() {
    let v: bool = kani::any();
    let (m, o) = run::<8>(1, |p| { let n = p.bool_len(v); p.write_bool(v).unwrap(); n });
    assert!(m[o] == v as u8);
}
#[kani::proof]
fn c11_w_byte_i8() {
    let v: u8 = kani::any();
    let (m, o) = run::<8>(1, |p| { let n = p.byte_len(v); p.write_byte(v).unwrap(); n });
    assert!(m[o] == v);
    let w: i8 = kani::any();
    let (m, o) = run::<8>(1, |p| { let n = p.i8_len(w); p.write_i8(w).unwrap(); n });
    assert!(m[o] == w as u8);
}
#[kani::proof]
fn c11_w_i16() {
    let v: i16 = kani::any();
    let (m, o) = run::<8>(2, |p| { let n = p.i16_len(v); p.write_i16(v).unwrap(); n });
    assert!(m[o..o + 2] == v.to_be_bytes());
}
#[kani::proof]
fn c11_w_i32() {
    let v: i32 = kani::any();
    let (m, o) = run::<10>(4, |p| { let n = p.i32_len(v); p.write_i32(v).unwrap(); n });
    assert!(m[o..o + 4] == v.to_be_bytes());
}
#[kani::proof]
fn c11_w_i64() {
    let v: i64 = kani::any();
    let (m, o) = run::<14>(8, |p| { let n = p.i64_len(v); p.write_i64(v).unwrap(); n });
    assert!(m[o..o + 8] == v.to_be_bytes());
}
#[kani::proof]
fn c11_w_double() {
    let bits: u64 = kani::any();
    let v = f64::from_bits(bits);
    let (m, o) = run::<14>(8, |p| { let n = p.double_len(v); p.write_double(v).unwrap(); n });
    assert!(m[o..o + 8] == bits.to_be_bytes());
}
#[kani::proof]
fn c11_w_uuid() {
    let v: [u8; 16] = kani::any();
    let (m, o) = run::<22>(16, |p| { let n = p.uuid_len(v); p.write_uuid(v).unwrap(); n });
    assert!(m[o..o + 16] == v);
}
#[kani::proof]
fn c11_w_field() {
    let t = any_ttype();
    let id: i16 = kani::any();
    let (m, o) = run::<8>(3, |p| { let n = p.field_begin_len(t, Some(id)) + p.field_end_len(); p.write_field_begin(t, id).unwrap(); p.write_field_end().unwrap(); n });
    assert!(m[o] == ttype_code(t) && m[o + 1..o + 3] == id.to_be_bytes());
    let (m, o) = run::<8>(1, |p| { let n = p.field_stop_len(); p.write_field_stop().unwrap(); n });
    assert!(m[o] == 0);
}
#[kani::proof]
fn c11_w_containers() {
    let t = any_ttype();
    let k = any_ttype();
    let n: usize = kani::any();
    kani::assume(n <= i32::MAX as usize);
    let (m, o) = run::<10>(5, |p| { let id = TListIdentifier::new(t, n); let l = p.list_begin_len(id) + p.list_end_len(); p.write_list_begin(id).unwrap(); p.write_list_end().unwrap(); l });
    assert!(m[o] == ttype_code(t) && m[o + 1..o + 5] == (n as i32).to_be_bytes());
    let (m, o) = run::<10>(5, |p| { let id = TSetIdentifier::new(t, n); let l = p.set_begin_len(id) + p.set_end_len(); p.write_set_begin(id).unwrap(); p.write_set_end().unwrap(); l });
    assert!(m[o] == ttype_code(t) && m[o + 1..o + 5] == (n as i32).to_be_bytes());
    let (m, o) = run::<12>(6, |p| { let id = TMapIdentifier::new(k, t, n); let l = p.map_begin_len(id) + p.map_end_len(); p.write_map_begin(id).unwrap(); p.write_map_end().unwrap(); l });
    assert!(m[o] == ttype_code(k) && m[o + 1] == ttype_code(t) && m[o + 2..o + 6] == (n as i32).to_be_bytes());
}
/// length-prefixed payloads (bounded: every length 0..=5, arbitrary content)
#[kani::proof]
#[kani::unwind(8)]
fn bnd_c11_w_bytes_le5() {
    let raw: [u8; 5] = kani::any();
    let n: usize = kani::any();
    kani::assume(n <= 5);
    let (m, o) = run::<16>(4 + n, |p| { let l = p.bytes_vec_len(&raw[..n]); p.write_bytes_vec(&raw[..n]).unwrap(); l });
    assert!(m[o..o + 4] == (n as i32).to_be_bytes());
    let mut i = 0;
    while i < 5 { if i < n { assert!(m[o + 4 + i] == raw[i]); } i += 1; }
}
