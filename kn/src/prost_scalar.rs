//! C05 / C06 / C10 / C18 (runtime scope): the macro-generated scalar codecs of
//! pilota::prost::encoding (`varint!`, `fixed_width!` instances exist only as macro expansions) and
//! the varint primitives, on the real compiled code, full value domain, symbolic tag 1..2^29-1.
//!   * bytes written == key(tag, wire type of the declared type) ++ payload per the protobuf
//!     encoding document (zig-zag for sint, little-endian fixed widths, sign-extended int32)   [C06]
//!   * encoded_len == number of bytes written                                                   [C05]
//!   * merge(encode(v)) == v into an ARBITRARY pre-existing value (last wins), consuming exactly
//!     the encoded bytes                                                                        [C05, C18]
//!   * merge on arbitrary bytes never panics / reads out of bounds                              [C10]
use bytes::{Buf, BufMut};
use pilota::prost::encoding::{self, decode_key, decode_varint, encode_key, encode_varint, encoded_len_varint, key_len, DecodeContext, WireType};

/// reference LEB128 from the protobuf encoding document
fn ref_uleb(mut n: u64, out: &mut [u8; 16], mut i: usize) -> usize {
    loop {
        if n < 128 { out[i] = n as u8; return i + 1; }
        out[i] = (n % 128) as u8 + 128;
        n /= 128;
        i += 1;
    }
}
/// loop-free comparison of the first n (<= 15) bytes
fn cmp15(a: &[u8; 18], b: &[u8; 16], n: usize) {
    macro_rules! c { ($($i:expr),*) => { $( if $i < n { assert!(a[$i] == b[$i]); } )* } }
    c!(0, 1, 2, 3, 4, 5, 6, 7, 8, 9, 10, 11, 12, 13, 14);
    assert!(n <= 15);
}
fn any_tag() -> u32 { let t: u32 = kani::any(); kani::assume(t >= 1 && t <= (1 << 29) - 1); t }

#[kani::proof]
#[kani::unwind(12)]
fn pb_varint_roundtrip() {
    let v: u64 = kani::any();
    let mut want = [0u8; 16];
    let n = ref_uleb(v, &mut want, 0);
    let mut mem = [0u8; 12];
    let rem_after;
    { let mut w: &mut [u8] = &mut mem[..]; encode_varint(v, &mut w); rem_after = w.len(); }
    assert!(12 - rem_after == n);
    assert!(encoded_len_varint(v) == n);
    let mut i = 0;
    while i < 10 { if i < n { assert!(mem[i] == want[i]); } i += 1; }
    // decode with an arbitrary tail after the encoding
    let t: [u8; 2] = kani::any();
    mem[n] = t[0]; mem[n + 1] = t[1];
    let mut r: &[u8] = &mem[..n + 2];
    match decode_varint(&mut r) { Ok(d) => { assert!(d == v); assert!(r.len() == 2); } Err(_) => assert!(false) }
    kani::cover!(n == 10);
    kani::cover!(n == 1);
}

/// decode_varint on ANY input of 0..=11 bytes: no panic, no out-of-bounds get_unchecked (unsafe
/// decode_varint_slice), Ok only for a terminated prefix of <= 10 bytes whose value fits u64
#[kani::proof]
#[kani::unwind(13)]
fn pb_varint_decode_total() {
    let raw: [u8; 11] = kani::any();
    let len: usize = kani::any();
    kani::assume(len <= 11);
    let mut r: &[u8] = &raw[..len];
    let res = decode_varint(&mut r);
    let mut first = 99usize;
    let mut i = 0;
    while i < 11 { if i < len && first == 99 && raw[i] < 128 { first = i; } i += 1; }
    match res {
        Ok(_) => { assert!(first != 99 && first < 10 && r.len() == len - first - 1); if first == 9 { assert!(raw[9] < 2); } }
        Err(_) => assert!(first == 99 || first >= 10 || (first == 9 && raw[9] >= 2)),
    }
    kani::cover!(res.is_ok() && first == 9);
    kani::cover!(res.is_err() && len == 11);
}

/// (complete for inputs of 0..=11 bytes) the VALUE and LENGTH decode_varint returns, on every input: Ok(v)
/// exactly when the input starts with a terminated varint of at most 10 bytes whose 10th byte is 0 or 1;
/// then v is the little-endian base-128 number of its payload bits and exactly those bytes are consumed.
/// This is the statement Verus assumes for the unsafe unrolled decode_varint_slice (vf/units/prost.vu):
/// inputs of 11 bytes, and shorter inputs ending in a byte < 0x80, go through that function.
#[kani::proof]
#[kani::unwind(13)]
fn pb_varint_decode_value() {
    let raw: [u8; 11] = kani::any();
    let len: usize = kani::any();
    kani::assume(len <= 11);
    let mut r: &[u8] = &raw[..len];
    let res = decode_varint(&mut r);
    let mut first = 99usize;
    let mut want: u64 = 0;
    let mut i = 0;
    while i < 10 {
        if i < len && first == 99 {
            want |= ((raw[i] & 0x7f) as u64) << (7 * i);
            if raw[i] < 128 { first = i; }
        }
        i += 1;
    }
    let wellformed = first != 99 && (first < 9 || raw[9] < 2);
    match res {
        Ok(v) => { assert!(wellformed); assert!(v == want); assert!(r.len() == len - first - 1); }
        Err(_) => assert!(!wellformed),
    }
    kani::cover!(res.is_ok() && first == 9 && len == 11);
    kani::cover!(res.is_ok() && first == 4 && len == 5);
    kani::cover!(res.is_err() && len == 11);
}

// (the key codec is exercised by every scalar harness below: each encodes a key for a symbolic tag and
// decodes it back with decode_key; a stand-alone key harness spends > 10 min in error formatting)

macro_rules! scalar {
    ($name:ident, $m:ident, $t:ty, $wt:expr, $wtn:expr, |$v:ident| $payload:expr, $plen:expr) => {
        #[kani::proof]
        #[kani::unwind(12)]
        #[kani::stub(alloc::fmt::format, crate::c11_reader::stub_format)]
        fn $name() {
            let tag = any_tag();
            let $v: $t = kani::any();
            // spec bytes
            let mut want = [0u8; 16];
            let k = ref_uleb(((tag as u64) << 3) | $wtn, &mut want, 0);
            let n = { let f = $payload; f(&mut want, k) };
            let mut mem = [0u8; 18];
            let rem_after;
            { let mut w: &mut [u8] = &mut mem[..16]; encoding::$m::encode(tag, &$v, &mut w); rem_after = w.len(); }
            assert!(16 - rem_after == n);
            assert!(encoding::$m::encoded_len(tag, &$v) == n);
            cmp15(&mem, &want, n);
            // decode: key, then merge into an arbitrary pre-existing value; arbitrary tail follows
            let mut r: &[u8] = &mem[..n + 2];
            match decode_key(&mut r) { Ok((t, w)) => assert!(t == tag && w == $wt), Err(_) => assert!(false) }
            let mut got: $t = kani::any();
            match encoding::$m::merge($wt, &mut got, &mut r, DecodeContext::default()) { Ok(()) => {}, Err(_) => assert!(false) }
            assert!(r.len() == 2);
            assert!(same(&got, &$v));
            kani::cover!(n == 5 + $plen);
        }
    };
}
trait Same { fn bits(&self) -> u64; }
impl Same for bool { fn bits(&self) -> u64 { *self as u64 } }
impl Same for i32 { fn bits(&self) -> u64 { *self as u32 as u64 } }
impl Same for i64 { fn bits(&self) -> u64 { *self as u64 } }
impl Same for u32 { fn bits(&self) -> u64 { *self as u64 } }
impl Same for u64 { fn bits(&self) -> u64 { *self } }
impl Same for f32 { fn bits(&self) -> u64 { self.to_bits() as u64 } }
impl Same for f64 { fn bits(&self) -> u64 { self.to_bits() } }
fn same<T: Same>(a: &T, b: &T) -> bool { a.bits() == b.bits() }

fn put_le(out: &mut [u8; 16], at: usize, v: u64, width: usize) -> usize {
    let mut i = 0;
    while i < 8 { if i < width { out[at + i] = (v >> (8 * i)) as u8; } i += 1; }
    at + width
}

scalar!(pb_bool, bool, bool, WireType::Varint, 0, |v| move |o: &mut [u8; 16], k: usize| ref_uleb(v as u64, o, k), 1);
scalar!(pb_int64, int64, i64, WireType::Varint, 0, |v| move |o: &mut [u8; 16], k: usize| ref_uleb(v as u64, o, k), 10);
scalar!(pb_uint32, uint32, u32, WireType::Varint, 0, |v| move |o: &mut [u8; 16], k: usize| ref_uleb(v as u64, o, k), 5);
scalar!(pb_uint64, uint64, u64, WireType::Varint, 0, |v| move |o: &mut [u8; 16], k: usize| ref_uleb(v, o, k), 10);
// sint32 / sint64: ZigZag
scalar!(pb_sint32, sint32, i32, WireType::Varint, 0, |v| move |o: &mut [u8; 16], k: usize| ref_uleb(if v >= 0 { 2 * (v as u64) } else { 2 * ((-(v as i64 + 1)) as u64) + 1 }, o, k), 5);
scalar!(pb_sint64, sint64, i64, WireType::Varint, 0, |v| move |o: &mut [u8; 16], k: usize| ref_uleb(if v >= 0 { 2 * (v as u64) } else { 2 * ((-(v + 1)) as u64) + 1 }, o, k), 10);
// fixed widths: little-endian
scalar!(pb_fixed32, fixed32, u32, WireType::ThirtyTwoBit, 5, |v| move |o: &mut [u8; 16], k: usize| put_le(o, k, v as u64, 4), 4);
scalar!(pb_sfixed32, sfixed32, i32, WireType::ThirtyTwoBit, 5, |v| move |o: &mut [u8; 16], k: usize| put_le(o, k, v as u32 as u64, 4), 4);
scalar!(pb_float, float, f32, WireType::ThirtyTwoBit, 5, |v| move |o: &mut [u8; 16], k: usize| put_le(o, k, v.to_bits() as u64, 4), 4);
scalar!(pb_fixed64, fixed64, u64, WireType::SixtyFourBit, 1, |v| move |o: &mut [u8; 16], k: usize| put_le(o, k, v, 8), 8);
scalar!(pb_sfixed64, sfixed64, i64, WireType::SixtyFourBit, 1, |v| move |o: &mut [u8; 16], k: usize| put_le(o, k, v as u64, 8), 8);
scalar!(pb_double, double, f64, WireType::SixtyFourBit, 1, |v| move |o: &mut [u8; 16], k: usize| put_le(o, k, v.to_bits(), 8), 8);

/// int32 (hand-written module): negative values are sign-extended to 64 bits (10 bytes)
#[kani::proof]
#[kani::unwind(12)]
#[kani::stub(alloc::fmt::format, crate::c11_reader::stub_format)]
fn pb_int32() {
    let tag = any_tag();
    let v: i32 = kani::any();
    let mut want = [0u8; 16];
    let k = ref_uleb((tag as u64) << 3, &mut want, 0);
    let n = ref_uleb(v as i64 as u64, &mut want, k);
    let mut mem = [0u8; 18];
    let rem_after;
    { let mut w: &mut [u8] = &mut mem[..16]; encoding::int32::encode(tag, &v, &mut w); rem_after = w.len(); }
    assert!(16 - rem_after == n);
    assert!(encoding::int32::encoded_len(tag, &v) == n);
    cmp15(&mem, &want, n);
    let mut r: &[u8] = &mem[..n + 2];
    match decode_key(&mut r) { Ok((t, w)) => assert!(t == tag && w == WireType::Varint), Err(_) => assert!(false) }
    let mut got: i32 = kani::any();
    match encoding::int32::merge(WireType::Varint, &mut got, &mut r, DecodeContext::default()) { Ok(()) => {}, Err(_) => assert!(false) }
    assert!(r.len() == 2 && got == v);
    kani::cover!(v < 0 && n == 15);
}
