//! More of pilota::prost::encoding on the real code.  Complete harnesses are marked (complete);
//! the others are bounded stand-ins (prefix bnd_, bound stated in the name and in props.py).
use bytes::{Buf, BufMut};
use pilota::prost::encoding::{self, decode_key, decode_varint, encode_varint, skip_field, DecodeContext, WireType};
use pilota::prost::{DecodeError, Message};
use std::collections::BTreeMap;

use crate::c11_reader::stub_format;

/// (complete) decode_varint on a NON-CONTIGUOUS buffer: the encoding of any u64 split at any point
/// into two chunks (`Buf::chain`), followed by two arbitrary bytes: the value is returned and exactly
/// the encoding is consumed.  Exercises the byte-at-a-time slow path across the chunk boundary.
#[kani::proof]
#[kani::unwind(12)]
#[kani::stub(alloc::fmt::format, stub_format)]
fn pb_varint_chain() {
    let v: u64 = kani::any();
    let mut mem = [0u8; 12];
    let n;
    { let mut w: &mut [u8] = &mut mem[..]; encode_varint(v, &mut w); n = 12 - w.len(); }
    let t: [u8; 2] = kani::any();
    mem[n] = t[0];
    mem[n + 1] = t[1];
    let s: usize = kani::any();
    kani::assume(s <= n);
    let (a, b) = mem[..n + 2].split_at(s);
    let mut c = a.chain(b);
    match decode_varint(&mut c) { Ok(d) => { assert!(d == v); assert!(c.remaining() == 2); } Err(_) => assert!(false) }
    kani::cover!(s > 0 && s < n && n == 10);
    kani::cover!(s == 0);
}

/// (complete) the fixed-width scalar merges (fixed_width! macro) on a TRUNCATED payload -- fewer bytes left than
/// the width of the type, including none: the result is a decode error, never a panic in Buf::get_*_le, and an
/// exactly sufficient payload is accepted
#[kani::proof]
#[kani::unwind(10)]
#[kani::stub(alloc::fmt::format, stub_format)]
fn pb_fixed_truncated() {
    let raw: [u8; 8] = kani::any();
    let n: usize = kani::any();
    kani::assume(n <= 8);
    let ctx = DecodeContext::default();
    { let mut r: &[u8] = &raw[..n]; let mut v: u64 = kani::any();
      let res = encoding::fixed64::merge(WireType::SixtyFourBit, &mut v, &mut r, ctx.clone()); assert!(res.is_err() == (n < 8)); }
    { let mut r: &[u8] = &raw[..n]; let mut v: f64 = 0.0;
      let res = encoding::double::merge(WireType::SixtyFourBit, &mut v, &mut r, ctx.clone()); assert!(res.is_err() == (n < 8)); }
    { let mut r: &[u8] = &raw[..n]; let mut v: i64 = kani::any();
      let res = encoding::sfixed64::merge(WireType::SixtyFourBit, &mut v, &mut r, ctx.clone()); assert!(res.is_err() == (n < 8)); }
    { let mut r: &[u8] = &raw[..n]; let mut v: u32 = kani::any();
      let res = encoding::fixed32::merge(WireType::ThirtyTwoBit, &mut v, &mut r, ctx.clone()); assert!(res.is_err() == (n < 4)); }
    { let mut r: &[u8] = &raw[..n]; let mut v: f32 = 0.0;
      let res = encoding::float::merge(WireType::ThirtyTwoBit, &mut v, &mut r, ctx.clone()); assert!(res.is_err() == (n < 4)); }
    { let mut r: &[u8] = &raw[..n]; let mut v: i32 = kani::any();
      let res = encoding::sfixed32::merge(WireType::ThirtyTwoBit, &mut v, &mut r, ctx.clone()); assert!(res.is_err() == (n < 4)); }
    kani::cover!(n == 3);
    kani::cover!(n == 8);
}

/// (complete) the well-known scalar wrapper messages of prost/types.rs (BoolValue, Int32Value, UInt32Value, Int64Value,
/// UInt64Value, FloatValue, DoubleValue as `impl Message for bool / i32 / u32 / i64 / u64 / f32 / f64`): for every value,
/// encode_raw writes exactly encoded_len() bytes (the default-value test must be the same in both)
#[kani::proof]
#[kani::unwind(12)]
fn pb_wrappers_len() {
    macro_rules! one { ($t:ty, $v:expr) => {{
        let v: $t = $v;
        let mut mem = [0u8; 16];
        let n;
        { let mut w: &mut [u8] = &mut mem[..]; Message::encode_raw(&v, &mut w); n = 16 - w.len(); }
        assert!(Message::encoded_len(&v) == n);
    }}; }
    one!(bool, kani::any());
    one!(i32, kani::any());
    one!(u32, kani::any());
    one!(i64, kani::any());
    one!(u64, kani::any());
    one!(f32, kani::any());
    one!(f64, kani::any());
    kani::cover!(true);
}

// skip_field is verified in Verus (vf/units/prost.vu, rule D18); Kani harnesses over it (recursion through
// generic Buf code) did not finish within 25 minutes even for 4-byte inputs and are not kept.

/// (bounded: pre-existing vector of 1 element, packed run of <= 2 elements, then one unpacked
/// element) merge_repeated appends in order and never replaces: packed and unpacked occurrences of
/// the same field concatenate.  uint32 (varint!) and fixed32 (fixed_width!) instances.
#[kani::proof]
#[kani::unwind(8)]
#[kani::stub(alloc::fmt::format, stub_format)]
fn bnd_pb_merge_repeated_packed() {
    let old: u32 = kani::any();
    let a: u8 = kani::any();
    let b: u8 = kani::any();
    let c: u8 = kani::any();
    kani::assume(a < 128 && b < 128 && c < 128);
    let two: bool = kani::any();
    // varint: packed payload = length, a, [b]
    let mut values = vec![old];
    let packed: [u8; 3] = [if two { 2 } else { 1 }, a, b];
    let mut r: &[u8] = if two { &packed[..3] } else { &packed[..2] };
    assert!(encoding::uint32::merge_repeated(WireType::LengthDelimited, &mut values, &mut r, DecodeContext::default()).is_ok());
    assert!(r.is_empty());
    let un: [u8; 1] = [c];
    let mut r: &[u8] = &un[..];
    assert!(encoding::uint32::merge_repeated(WireType::Varint, &mut values, &mut r, DecodeContext::default()).is_ok());
    if two { assert!(values.len() == 4 && values[0] == old && values[1] == a as u32 && values[2] == b as u32 && values[3] == c as u32); }
    else { assert!(values.len() == 3 && values[0] == old && values[1] == a as u32 && values[2] == c as u32); }
    // fixed32: packed run of one element after an existing one
    let f: u32 = kani::any();
    let mut fv = vec![old];
    let fb = f.to_le_bytes();
    let fpacked: [u8; 5] = [4, fb[0], fb[1], fb[2], fb[3]];
    let mut r: &[u8] = &fpacked[..];
    assert!(encoding::fixed32::merge_repeated(WireType::LengthDelimited, &mut fv, &mut r, DecodeContext::default()).is_ok());
    assert!(fv.len() == 2 && fv[0] == old && fv[1] == f);
    kani::cover!(two);
    kani::cover!(!two);
}

// map merge (`merge_with_default` + BTreeMap/AHashMap insertion) and Message::merge / decode_length_delimited harnesses
// were tried and removed: CBMC exceeded 40 minutes and 22 GB on a one-entry BTreeMap<u32,u32>.

/// (bounded: one entry) map encode vs encoded_len, including default key / default value entries
/// (with and without the crate feature pb-encode-default-value, see props.py)
#[kani::proof]
#[kani::unwind(8)]
fn bnd_pb_map_len_btree() {
    let k: u8 = kani::any();
    let v: u8 = kani::any();
    kani::assume(k < 128 && v < 128);
    let tag: u32 = kani::any();
    kani::assume(tag >= 1 && tag <= 15);
    let mut m: BTreeMap<u32, u32> = BTreeMap::new();
    m.insert(k as u32, v as u32);
    let mut mem = [0u8; 12];
    let n;
    { let mut w: &mut [u8] = &mut mem[..];
      encoding::btree_map::encode(encoding::uint32::encode, encoding::uint32::encoded_len, encoding::uint32::encode, encoding::uint32::encoded_len, tag, &m, &mut w);
      n = 12 - w.len(); }
    let l = encoding::btree_map::encoded_len(encoding::uint32::encoded_len, encoding::uint32::encoded_len, tag, &m);
    assert!(l == n);
    // the entry is key(tag, LEN) len payload and payload length matches
    assert!(mem[0] == ((tag << 3) | 2) as u8 && mem[1] as usize == n - 2);
    kani::cover!(k == 0 && v == 0);
    kani::cover!(k != 0 && v == 0);
}


/// (complete) field keys: for every legal field number (1 ..= 2^29-1) and each of the six wire types, decode_key reads
/// back exactly (field number, wire type) from the bytes encode_key wrote, consuming exactly key_len(tag) bytes with
/// arbitrary data following -- in particular the two group wire types (3 = start, 4 = end) are not confused
#[kani::proof]
#[kani::unwind(12)]
#[kani::stub(alloc::fmt::format, stub_format)]
fn pb_key_roundtrip() {
    let tag: u32 = kani::any();
    kani::assume(tag >= 1 && tag <= (1 << 29) - 1);
    let w: u8 = kani::any();
    kani::assume(w <= 5);
    let wt = match w { 0 => WireType::Varint, 1 => WireType::SixtyFourBit, 2 => WireType::LengthDelimited,
                       3 => WireType::StartGroup, 4 => WireType::EndGroup, _ => WireType::ThirtyTwoBit };
    let mut mem = [0u8; 8];
    let n;
    { let mut wr: &mut [u8] = &mut mem[..]; encoding::encode_key(tag, wt, &mut wr); n = 8 - wr.len(); }
    assert!(n == encoding::key_len(tag));
    // the key is the varint of (field number << 3 | wire type code of the encoding guide)
    let key = ((tag as u64) << 3) | (w as u64);
    let mut acc: u64 = 0;
    let mut i = 0;
    while i < n { acc |= ((mem[i] & 0x7f) as u64) << (7 * i); assert!((mem[i] >= 0x80) == (i + 1 < n)); i += 1; }
    assert!(acc == key);
    let t: u8 = kani::any();
    mem[n] = t;
    let mut r: &[u8] = &mem[..n + 1];
    match decode_key(&mut r) {
        Ok((t2, w2)) => { assert!(t2 == tag); assert!(w2 == wt); assert!(r.remaining() == 1); }
        Err(_) => assert!(false),
    }
    kani::cover!(w == 3 && n == 5);
    kani::cover!(w == 4 && n == 1);
}

/// (bounded: pre-existing vector of 1 element, packed run of 1..=2 one-byte elements, then one unpacked element)
/// the hand-written int32 module (the codec of `int32` and of plain enums): packed and unpacked occurrences
/// concatenate, in order, and the packed elements are decoded as varints whatever the outer wire type is
#[kani::proof]
#[kani::unwind(8)]
#[kani::stub(alloc::fmt::format, stub_format)]
fn bnd_pb_i32_repeated_packed() {
    let old: i32 = kani::any();
    let a: u8 = kani::any();
    let b: u8 = kani::any();
    let c: u8 = kani::any();
    kani::assume(a < 128 && b < 128 && c < 128);
    let two: bool = kani::any();
    let mut values: Vec<i32> = vec![old];
    let packed: [u8; 3] = [if two { 2 } else { 1 }, a, b];
    let mut r: &[u8] = if two { &packed[..3] } else { &packed[..2] };
    assert!(encoding::int32::merge_repeated(WireType::LengthDelimited, &mut values, &mut r, DecodeContext::default()).is_ok());
    assert!(r.is_empty());
    let un: [u8; 1] = [c];
    let mut r: &[u8] = &un[..];
    assert!(encoding::int32::merge_repeated(WireType::Varint, &mut values, &mut r, DecodeContext::default()).is_ok());
    if two { assert!(values.len() == 4 && values[0] == old && values[1] == a as i32 && values[2] == b as i32 && values[3] == c as i32); }
    else { assert!(values.len() == 3 && values[0] == old && values[1] == a as i32 && values[2] == c as i32); }
    kani::cover!(two);
    kani::cover!(!two);
}
