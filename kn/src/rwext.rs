//! pilota::thrift::rw_ext::ReadExt: the io_read_impl! instances (unsafe pointer cast, macro-only)
//! on a byte slice (a `Buf`) of every length 0..=SIZE+1: enough bytes => value = from_{be,le}_bytes(first SIZE) and
//! exactly SIZE consumed; otherwise Err.  This is the contract Verus assumes for them.
use bytes::{Buf, Bytes};
use pilota::thrift::rw_ext::ReadExt;

macro_rules! rd {
    ($name:ident, $m:ident, $t:ty, $n:expr, $conv:ident) => {
        #[kani::proof]
        #[kani::unwind(12)]
        fn $name() {
            let raw: [u8; $n + 1] = kani::any();
            let len: usize = kani::any();
            kani::assume(len <= $n + 1);
            let mut b: &[u8] = &raw[..len];   // `&[u8]` is a bytes::Buf; ReadExt is generic over Buf
            let r = b.$m();
            if len >= $n {
                let mut a = [0u8; $n];
                a.copy_from_slice(&raw[..$n]);
                match r { Ok(v) => { assert!(v == <$t>::$conv(a)); assert!(b.remaining() == len - $n); if len > $n { assert!(b[0] == raw[$n]); } }
                          Err(_) => assert!(false) }
            } else {
                assert!(r.is_err());
            }
            kani::cover!(len == $n + 1);
            kani::cover!(len == 0);
        }
    };
}
rd!(rwext_read_i16, read_i16, i16, 2, from_be_bytes);
rd!(rwext_read_i16_le, read_i16_le, i16, 2, from_le_bytes);
rd!(rwext_read_i32, read_i32, i32, 4, from_be_bytes);
rd!(rwext_read_i32_le, read_i32_le, i32, 4, from_le_bytes);
rd!(rwext_read_i64, read_i64, i64, 8, from_be_bytes);
rd!(rwext_read_i64_le, read_i64_le, i64, 8, from_le_bytes);
rd!(rwext_read_u64, read_u64, u64, 8, from_be_bytes);
rd!(rwext_read_u64_le, read_u64_le, u64, 8, from_le_bytes);
