/// vacuity guard: the cover must be reachable and the false assertion must fail
#[kani::proof]
fn canary_cover() {
    let x: u8 = kani::any();
    kani::cover!(x == 7);
}
#[kani::proof]
fn canary_must_fail() {
    let x: u8 = kani::any();
    assert!(x != 7);
}
