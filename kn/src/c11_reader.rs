//! C11: TBinaryUnsafeInputProtocol, one primitive per harness, arbitrary input content of a fixed
//! size that contains the complete primitive (the documented precondition), optional leading byte
//! consumed first (symbolic cursor).  Checked: value == the Thrift binary decoding (what the checked
//! reader is verified to return in Verus), cursor advanced by exactly the primitive's size.
use bytes::{Buf, Bytes};
use pilota::thrift::{binary_unsafe::TBinaryUnsafeInputProtocol, TInputProtocol, TType};

/// error messages are not modelled: `format!` on error paths is stubbed (it dominates CBMC cost otherwise)
pub fn stub_format(_a: core::fmt::Arguments<'_>) -> String { String::new() }

fn with<const N: usize, R>(f: impl FnOnce(&mut TBinaryUnsafeInputProtocol, &[u8; N], usize) -> R) -> R {
    let raw: [u8; N] = kani::any();
    let mut b = Bytes::copy_from_slice(&raw);
    let lead: bool = kani::any();
    let mut p = unsafe { TBinaryUnsafeInputProtocol::new(&mut b) };
    let mut o = 0;
    if lead { let x = p.read_byte().unwrap_or(0); assert!(x == raw[0]); o = 1; }
    kani::cover!(lead);
    kani::cover!(!lead);
    f(&mut p, &raw, o)
}

#[kani::proof]
fn c11_r_i8_bool_byte() {
    with::<4, _>(|p, raw, o| {
        match p.read_i8() { Ok(v) => assert!(v == raw[o] as i8), Err(_) => assert!(false) }
        assert!(p.index() == o + 1);
        match p.read_bool() { Ok(v) => assert!(v == (raw[o + 1] != 0)), Err(_) => assert!(false) }
        assert!(p.index() == o + 2);
    });
}
#[kani::proof]
fn c11_r_i16() {
    with::<4, _>(|p, raw, o| {
        match p.read_i16() { Ok(v) => assert!(v == i16::from_be_bytes([raw[o], raw[o + 1]])), Err(_) => assert!(false) }
        assert!(p.index() == o + 2);
    });
}
#[kani::proof]
fn c11_r_i32() {
    with::<6, _>(|p, raw, o| {
        match p.read_i32() { Ok(v) => assert!(v == i32::from_be_bytes([raw[o], raw[o + 1], raw[o + 2], raw[o + 3]])), Err(_) => assert!(false) }
        assert!(p.index() == o + 4);
    });
}
#[kani::proof]
fn c11_r_i64_double() {
    with::<10, _>(|p, raw, o| {
        let mut a = [0u8; 8];
        a.copy_from_slice(&raw[o..o + 8]);
        match p.read_i64() { Ok(v) => assert!(v == i64::from_be_bytes(a)), Err(_) => assert!(false) }
        assert!(p.index() == o + 8);
    });
    with::<10, _>(|p, raw, o| {
        let mut a = [0u8; 8];
        a.copy_from_slice(&raw[o..o + 8]);
        match p.read_double() { Ok(v) => assert!(v.to_bits() == u64::from_be_bytes(a)), Err(_) => assert!(false) }
        assert!(p.index() == o + 8);
    });
}
#[kani::proof]
fn c11_r_uuid() {
    with::<18, _>(|p, raw, o| {
        match p.read_uuid() { Ok(v) => assert!(v[..] == raw[o..o + 16]), Err(_) => assert!(false) }
        assert!(p.index() == o + 16);
    });
}
// read_field_begin / read_list_begin / read_set_begin / read_map_begin of the unchecked reader are
// NOT under a Kani harness: their error-construction path (String/FastStr allocation behind
// new_protocol_exception) takes CBMC beyond 10 minutes even with concrete type codes and stubs.
// They are compositions of read_byte/read_i16/read_i32 (proved above) with field_type_from_u8
// (the same text as in binary.rs, verified there by Verus); their composition is exercised only by
// the bounded skipper harness.
