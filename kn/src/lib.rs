//! Engine K: Kani harnesses on the REAL pilota crate (path dependency) and its real dependencies.
//! leaf_* / a3_* / a5_* / rwext_* : complete (loop-free, or loops bounded by operand width with
//!                                  unwinding assertions on) over full-domain symbolic inputs
//! bnd_*                          : bounded stand-ins (bound in the name / props.py), never counted as proved
#![allow(unused_imports, dead_code)]
extern crate alloc;
#[cfg(kani)]
mod canary;
#[cfg(kani)]
mod a3_varint;
#[cfg(kani)]
mod a5_bytes;
#[cfg(kani)]
mod rwext;
#[cfg(kani)]
mod c11_writer;
#[cfg(kani)]
mod c11_reader;
#[cfg(kani)]
mod prost_scalar;
#[cfg(kani)]
mod prost_more;
#[cfg(kani)]
mod len_ext;
