//! A3: integer-encoding 4.0.2 VarInt for the four types pilota instantiates, every value:
//!   encode_var writes exactly uleb(zigzag(v)) (uleb(v) for u32), required_space is its length,
//!   decode_var(encoding ++ arbitrary tail) returns (v, length).
use integer_encoding::VarInt;

/// reference ULEB128 written from the protobuf/thrift documents (independent of the crate)
fn ref_uleb(mut n: u64, out: &mut [u8; 10]) -> usize {
    let mut i = 0;
    loop {
        if n < 128 { out[i] = n as u8; return i + 1; }
        out[i] = (n % 128) as u8 + 128;
        n /= 128;
        i += 1;
    }
}
fn ref_zz(v: i64) -> u64 { if v >= 0 { 2 * (v as u64) } else { 2 * ((-(v + 1)) as u64) + 1 } }

macro_rules! a3 {
    ($name:ident, $t:ty, $to_u64:expr) => {
        #[kani::proof]
        #[kani::unwind(12)]
        fn $name() {
            let v: $t = kani::any();
            let mut want = [0u8; 10];
            let f = $to_u64; let n = ref_uleb(f(v), &mut want);
            let mut buf = [0u8; 12];
            let tail: [u8; 2] = kani::any();
            let k = v.encode_var(&mut buf[..10]);
            assert!(k == n);
            assert!(v.required_space() == n);
            let mut i = 0;
            while i < 10 { if i < n { assert!(buf[i] == want[i]); } i += 1; }
            buf[k] = tail[0];
            buf[k + 1] = tail[1];
            let d = <$t>::decode_var(&buf[..k + 2]);
            assert!(d == Some((v, k)));
            kani::cover!(k == ((core::mem::size_of::<$t>() * 8 + 7) / 7));
            kani::cover!(k == 1);
        }
    };
}
a3!(a3_varint_i16, i16, |v: i16| ref_zz(v as i64));
a3!(a3_varint_i32, i32, |v: i32| ref_zz(v as i64));
a3!(a3_varint_i64, i64, |v: i64| ref_zz(v));
a3!(a3_varint_u32, u32, |v: u32| v as u64);

/// decode_var on ANY 11 bytes: Some((v,k)) iff the first terminated prefix has k <= 10 bytes; never panics
#[kani::proof]
#[kani::unwind(13)]
fn a3_varint_decode_total() {
    let buf: [u8; 11] = kani::any();
    let len: usize = kani::any();
    kani::assume(len <= 11);
    let r = i64::decode_var(&buf[..len]);
    // position of the first byte without continuation bit
    let mut first = 99usize;
    let mut i = 0;
    while i < 11 { if i < len && first == 99 && buf[i] < 128 { first = i; } i += 1; }
    match r {
        Some((_, k)) => assert!(first != 99 && k == first + 1 && k <= 10),
        None => assert!(first == 99 || first + 1 > 10),
    }
    kani::cover!(r.is_none() && len == 11);
    kani::cover!(matches!(r, Some((_, 10))));
}
