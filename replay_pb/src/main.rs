//! Generator witness for C06 (G7 and later generator findings): run the real generator on a .proto
//! that has one singular and one repeated field of every scalar type, and report which
//! `::pilota::prost::encoding::<module>` codec the emitted Message impl calls for each.  The module
//! fixes the wire type and payload layout (varint / ZigZag / 4 or 8 little-endian bytes), so a wrong
//! module is a wrong encoding on the wire even where pilota's own round trip stays self-consistent.
use std::fs;
const TYPES: [&str; 15] = ["double", "float", "int32", "int64", "uint32", "uint64", "sint32", "sint64",
    "fixed32", "fixed64", "sfixed32", "sfixed64", "bool", "string", "bytes"];
fn main() {
    let mut proto = String::from("syntax = \"proto3\";\npackage g7;\nmessage S {\n");
    for (i, t) in TYPES.iter().enumerate() {
        proto += &format!("  {t} s{i} = {};\n  repeated {t} r{i} = {};\n", 100 + i, 200 + i);
    }
    proto += "}\n";
    let dir = std::env::temp_dir().join(format!("g7_scalars_{}", std::process::id()));
    fs::create_dir_all(&dir).unwrap();
    let path = dir.join("g7.proto");
    fs::write(&path, proto).unwrap();
    let out = dir.join("g7.rs");
    pilota_build::Builder::protobuf()
        .ignore_unused(false)
        .include_dirs(vec![dir.clone()])
        .compile_with_config(vec![pilota_build::IdlService::from_path(path)], pilota_build::Output::File(out.clone()));
    let code: String = fs::read_to_string(&out).unwrap().chars().filter(|c| !c.is_whitespace()).collect();
    let _ = fs::remove_dir_all(&dir);
    let mut bad = 0;
    for (i, t) in TYPES.iter().enumerate() {
        // pilota maps `string` to its faststr codec by default (same wire format: length-delimited UTF-8)
        let modules: &[&str] = if *t == "string" { &["string", "faststr"] } else { &[*t] };
        for (tag, func) in [(100 + i, "encode"), (200 + i, "encode_repeated")] {
            let ok = modules.iter().any(|m| code.contains(&format!("::pilota::prost::encoding::{m}::{func}({tag},")));
            if !ok {
                let found: Vec<&str> = code.match_indices(&format!("({tag},")).map(|(j, _)| { let st = code[..j].rfind("encoding::").unwrap_or(j); &code[st..j] }).collect();
                println!("field {tag} ({}{t}): expected ::pilota::prost::encoding::{}::{func}({tag}, ..) -- calls found for this tag: {:?}",
                    if func == "encode" { "" } else { "repeated " }, modules[0], found);
                bad += 1;
            }
        }
    }
    println!("{} scalar types x {{singular, repeated}}: {} wrong codec selections", TYPES.len(), bad);
    assert!(bad == 0, "a field does not use the codec of its declared type");
}
