//! G7 (C06): run the real generator on a .proto with sint32 / sint64 fields and report which
//! `::pilota::prost::encoding::<module>` codec the emitted Message impl calls for them.
//! ZigZag (sint32 / sint64 modules) is what the protobuf encoding prescribes; int32 / int64 put
//! different bytes on the wire for every negative number.
use std::fs;
const PROTO: &str = "syntax = \"proto3\";\npackage g7;\nmessage S {\n  sint32 a = 1;\n  sint64 b = 2;\n  repeated sint32 c = 3;\n}\n";
fn main() {
    let dir = std::env::temp_dir().join(format!("g7_sint_{}", std::process::id()));
    fs::create_dir_all(&dir).unwrap();
    let proto = dir.join("g7.proto");
    fs::write(&proto, PROTO).unwrap();
    let out = dir.join("g7.rs");
    pilota_build::Builder::protobuf()
        .ignore_unused(false)
        .include_dirs(vec![dir.clone()])
        .compile_with_config(vec![pilota_build::IdlService::from_path(proto)], pilota_build::Output::File(out.clone()));
    let code: String = fs::read_to_string(&out).unwrap().chars().filter(|c| !c.is_whitespace()).collect();
    let _ = fs::remove_dir_all(&dir);
    let mut bad = 0;
    for (tag, module, func) in [(1, "sint32", "encode"), (2, "sint64", "encode"), (3, "sint32", "encode_repeated")] {
        let needle = format!("::pilota::prost::encoding::{module}::{func}({tag},");
        let ok = code.contains(&needle);
        println!("field {tag}: expected call {needle} -> {}", if ok { "found" } else { "NOT FOUND" });
        if !ok { bad += 1; }
    }
    assert!(bad == 0, "sint fields do not use the ZigZag codec");
}
