#!/bin/bash
# MANIFEST.setup_cmd: builds everything the checks need, offline, from files on disk.
set -e
cd "$(dirname "$0")"
export CARGO_NET_OFFLINE=true
REPO=${VERIF_REPO:-/repo}
what=${1:-all}
mkdir -p .build
# 1. dependency rlibs for Verus, compiled with Verus' pinned toolchain, versions pinned by /repo/Cargo.lock
cp "$REPO/Cargo.lock" vf/depcrate/Cargo.lock
( cd vf/depcrate && CARGO_TARGET_DIR=../../.build/vfdeps cargo +1.98.1-x86_64-unknown-linux-gnu build --offline 2>&1 | tail -2 )
[ "$what" = deps ] && exit 0
# 2. replay crate (plain cargo, real pilota by path)
sed "s#@REPO@#$REPO#g" replay/Cargo.toml.in > replay/Cargo.toml
cp "$REPO/Cargo.lock" replay/Cargo.lock
( cd replay && CARGO_TARGET_DIR=../.build/replay-target cargo build --offline 2>&1 | tail -2 )
# 3. Kani harness crate: warm the build
if [ -f kn/Cargo.toml.in ]; then
  sed "s#@REPO@#$REPO#g" kn/Cargo.toml.in > kn/Cargo.toml
  cp "$REPO/Cargo.lock" kn/Cargo.lock
  ( cd kn && cargo kani -Z function-contracts -Z stubbing --harness canary_cover --target-dir ../.build/kani-target 2>&1 | tail -3 ) || true
fi
echo setup done
