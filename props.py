"""Which units / harnesses decide which property (see DESIGN.md section 5)."""

A_COMMON = [
    'A3 integer-encoding 4.0.2 VarInt::{encode_var,required_space,decode_var} for i16/i32/i64/u32 behave as zig-zag ULEB128 (assumed in Verus; proved on the real crate by the Kani harnesses a3_varint_*)',
    'A1 Verus 0.2026.09.13/z3, Kani 0.68/CBMC, rustc, and the extraction rules D1..D14 of vf/extract.py',
    'A2 bytes 1.8.0 (BytesMut::put_slice, Bytes::{len,split_to,clone}, Buf::{remaining,chunk,advance,copy_to_slice,get_u8}) behaves as the assumed sequence specifications in vf/spec/prelude.rs, including the documented panic preconditions',
    'A4 linkedbytes 0.1.8 bytes_mut/insert/insert_faststr and faststr len/as_ref/clone/from_bytes_unchecked: view = concatenation',
    'A5 core intrinsics: {i,u}{16,32,64}::to_{be,le}_bytes, f64::to_bits/from_bits, Result::and_then, From<T> for Option<T>/T, str::len/as_bytes (byte view)',
    'A8 error values are opaque: all errors of a type are one abstract value; only which branch returns Err is modelled',
    'A11 the running zero_copy_len total does not overflow usize; A12 lengths/counts handed to writers fit a non-negative i32 (Thrift wire limit) -- both are explicit requires clauses',
    'usize is 64 bits (global size_of usize == 8)',
]

PROPS = {
    'C01': dict(
        verus=['binary', 'binary_le', 'compact'],
        kani=[],
        assumptions=A_COMMON,
        not_covered='generated code (C02); unchecked binary codec is decided under C11',
    ),
}

# name -> dict(kind='leaf'|'bounded', bound='..', quick=bool, timeout=s, args=[..])
KANI_HARNESSES = {
}

# property -> [(regex on obligation name, replay program, args)]
WITNESS = {
}
