"""Which units / harnesses decide which property (see DESIGN.md section 5)."""

A_COMMON = [
    'A1 Verus 0.2026.09.13/z3, Kani 0.68/CBMC 6.11, rustc, and the extraction rules D1..D24 of vf/extract.py',
    'A2 bytes 1.8.0 (BytesMut::put_slice, Bytes::{len,split_to,clone}, Buf::{remaining,chunk,advance,copy_to_slice,get_u8}) behaves as the assumed sequence specifications in vf/spec/prelude.rs, including the documented panic preconditions; a Bytes never holds more than isize::MAX bytes',
    'A3 integer-encoding 4.0.2 VarInt::{encode_var,required_space,decode_var} for i16/i32/i64/u32 behave as zig-zag ULEB128 (assumed in Verus; proved on the real crate by the Kani harnesses a3_varint_*)',
    'A4 linkedbytes 0.1.8 bytes_mut/insert/insert_faststr and faststr len/as_ref/clone/from_bytes_unchecked: view = concatenation',
    'A5 core intrinsics: {i,u}{16,32,64}::to_{be,le}_bytes (checked by Kani harness a5_int_bytes), f64::to_bits/from_bits, Result::and_then, From<T> for Option<T>/T, From<Bytes> for Vec<u8>, derive(Default), str::len/as_bytes (byte view)',
    'A8 error values are opaque: all errors of a type are one abstract value; only which branch returns Err is modelled',
    'A11 the running zero_copy_len total does not overflow usize; A12 lengths/counts handed to writers fit a non-negative i32 (Thrift wire limit); the field-id stack holds fewer than usize::MAX entries -- all explicit requires clauses',
    'io_read_impl! readers of rw_ext.rs (unsafe pointer cast, macro-only) enter Verus as assumed contracts; the same statements are proved on the real code by the Kani harnesses rwext_read_*',
    'usize is 64 bits (global size_of usize == 8)',
]
NOT_GEN = 'generated (pilota-build emitted) code is not covered: see not_applicable C02'

THRIFT_UNITS = ['binary', 'binary_le', 'compact']
K_SUPPORT = ['a3_varint_i16', 'a3_varint_i32', 'a3_varint_u32', 'a3_varint_i64', 'a3_varint_decode_total', 'a5_int_bytes',
             'rwext_read_i16', 'rwext_read_i16_le', 'rwext_read_i32', 'rwext_read_i32_le', 'rwext_read_i64', 'rwext_read_i64_le',
             'rwext_read_u64', 'rwext_read_u64_le']
K_C11_W = ['c11_w_bool', 'c11_w_byte_i8', 'c11_w_i16', 'c11_w_i32', 'c11_w_i64', 'c11_w_double', 'c11_w_uuid', 'c11_w_field',
           'c11_w_containers', 'bnd_c11_w_bytes_le5']
K_C11_R = ['c11_r_i8_bool_byte', 'c11_r_i16', 'c11_r_i32', 'c11_r_i64_double', 'c11_r_uuid']
K_PB_MORE = ['pb_fixed_truncated', 'pb_wrappers_len', 'pb_varint_chain', 'bnd_pb_merge_repeated_packed', 'bnd_pb_map_len_btree', 'bnd_pb_map_len_btree+pbdef']
K_PB = ['pb_varint_roundtrip', 'pb_varint_decode_total', 'pb_varint_decode_value', 'pb_bool', 'pb_int32', 'pb_int64', 'pb_uint32', 'pb_uint64', 'pb_sint32', 'pb_sint64',
        'pb_fixed32', 'pb_sfixed32', 'pb_float', 'pb_fixed64', 'pb_sfixed64', 'pb_double']

A_LB = 'unit unsafe_lb: write_i32, advance_mut, the re-derivation of the window (`self.buf = slice::from_raw_parts_mut(..)`) and the raw copy (`ptr::copy_nonoverlapping`) of the unchecked LinkedBytes writer are ASSUMED contracts written from their bodies (rule D22); no Kani harness reaches LinkedBytes (measured: > 25 min, 22 GB)'

PROPS = {
    'C01': dict(verus=THRIFT_UNITS + ['unsafe_skip', 'unsafe_lb', 'async_binary', 'async_binary_le', 'async_compact'], kani=K_SUPPORT + K_C11_W + K_C11_R, assumptions=A_COMMON + [A_LB],
                not_covered=NOT_GEN + '; the unchecked LinkedBytes writer is decided only for the ORDER of operations in write_faststr / write_bytes / write_bytes_without_len (zero-copy branch) over assumed contracts of its raw-store primitives (unit unsafe_lb); its primitives, write_message_begin and write_field_begin (raw stores) are not decided'),
    'C03': dict(verus=THRIFT_UNITS, kani=K_SUPPORT, assumptions=A_COMMON,
                not_covered=NOT_GEN + '; ApplicationException::{encode,decode} not yet under contract'),
    'C04': dict(verus=THRIFT_UNITS + ['unsafe_lb'], kani=K_C11_W + ['bnd_len_ext_list'], assumptions=A_COMMON,
                not_covered=NOT_GEN + '; TLengthProtocolExt::list_len only by a bounded Kani stand-in (3 elements); the other closure helpers (field_len!, set/map_len, write_list, ...) not under contract; TLengthProtocol of TCompactInputProtocol not under contract'),
    'C05': dict(verus=['prost'], kani=K_PB + K_PB_MORE, assumptions=A_COMMON[:1] + ['bytes 1.8.0 Buf for &[u8] / BufMut for &mut [u8] are exercised as compiled (not assumed)', 'format! on error paths is stubbed in the Kani harnesses (message text not modelled)'],
                not_covered='generated messages; repeated/packed/map/message/group/string/bytes codecs are not yet under a harness'),
    'C06': dict(verus=['pbgen'], kani=K_PB + ['bnd_pb_merge_repeated_packed'], assumptions=A_COMMON[:1] + ['format! on error paths is stubbed in the Kani harnesses'],
                not_covered='generated messages: only the two match tables that select the codec per scalar type (lower_ty, ty_module) are covered, as verbatim fragments; repeated/map/oneof positions of the generator and map entry layout are not covered'),
    'C07': dict(verus=['skip', 'binary', 'binary_le', 'compact_skip', 'async_skip', 'async_binary', 'async_binary_le', 'async_compact_skip', 'async_compact', 'unsafe_skip'], kani=[], assumptions=A_COMMON + ['A14 SmallVec<[SkipData; 8]> is replaced by Vec<SkipData> (rule D20): push/pop/last/last_mut/is_empty assumed to behave as Vec\'s', 'the unchecked primitive reads read_byte/read_i16/read_i32 enter Verus through their safety contract (the range read is inside the buffer) and the value statement the complete Kani harnesses c11_r_* prove on the real unsafe code'],
                not_covered='decided: (1) the recursive default skipper and (2) the async default skipper, each against a recursive grammar of binary-protocol values (bskip_val: structs, lists, sets, maps nested to the depth limit), with the refinement obligations that TBinaryProtocol<&mut Bytes> and TAsyncBinaryProtocol<R> (both byte orders) implement the reader contracts the skippers are verified against; (3) the compact reader\'s own skipper (added by the G4 fix) against a recursive grammar of compact-protocol values (cskip_val: varints of bounded length, bool-in-header fields, short/long field headers with the i16 delta check, short/long list headers, one-byte empty map), on top of the re-verified real bodies of the compact reader: Ok(n) <=> the input starts with a well-formed value of that type occupying n bytes, which are exactly the bytes consumed, reader state (field-id stack, last id) restored; depth 0 => Err; termination by depth. (4) the async default skipper a second time, as a generic function over the compact reader contract, against the same compact grammar, with the refinement obligation for TAsyncCompactProtocol<R>. (5) the ITERATIVE skipper of the unchecked binary reader (explicit work stack, fixed-size fast paths via the table BINARY_BASIC_TYPE_FIXED_SIZE), within the documented contract of the unchecked codec (the input holds a complete well-formed value of the type): it returns exactly the size the binary value grammar assigns, advances the cursor by exactly that much, every unchecked read it issues is inside the buffer, and it terminates; the invariant interprets the work stack as a continuation of the recursive grammar (thrift_iskip_spec.rs). Not decided for the unchecked reader: behaviour on malformed input (outside its contract by design); TBinaryUnsafeInputProtocol::skip (drop the consumed prefix, re-derive the view, run the iterative skipper) is decided with the re-derivation as an assumed step'),
    'C09': dict(verus=THRIFT_UNITS + ['skip', 'compact_skip', 'async_skip', 'async_compact_skip', 'appexc', 'async_binary', 'async_binary_le', 'async_compact'], kani=['a3_varint_decode_total', 'rwext_read_i16', 'rwext_read_i32', 'rwext_read_i64', 'rwext_read_u64'], assumptions=A_COMMON,
                not_covered=NOT_GEN + '; unchecked (unsafe) readers are outside the checked-reader scope of C09'),
    'C10': dict(verus=['prost'], kani=['pb_varint_decode_total', 'pb_varint_decode_value', 'pb_varint_roundtrip', 'pb_varint_chain', 'pb_fixed_truncated'], assumptions=A_COMMON[:1] + ['decode_varint_slice (unsafe, unrolled) enters Verus through an assumed contract (Ok((v, k)) <=> the slice starts with a well-formed varint of value v and length k); Kani pb_varint_decode_total / pb_varint_decode_value prove that statement on the real code for every input of 0..=11 bytes; that longer slices behave like their first 10 bytes is read off the unrolled code, not proved', 'derive(Clone) of DecodeContext replaced by its field-wise expansion; core::cmp::min redirected to a usize wrapper'],
                not_covered='decided: decode_varint (dispatch, slow path loop with the shift-and-or accumulation proved equal to the base-128 value), decode_key, check_wire_type, WireType::try_from, DecodeContext::{enter_recursion,limit_reached}: Ok(v) <=> the input starts with a well-formed varint / key, v is its value, exactly its bytes are consumed; skip_field against a recursive grammar of unknown fields (pskip/pgroup: groups end at the end-group key with the group\'s own field number, nest to the recursion budget, length prefixes larger than the input are rejected): Ok <=> well-formed, consumption exact, terminates with the budget as measure. encoding::bytes::merge (length prefix checked against the input before copy_to_bytes, exact consumption, value replaced by exactly the payload); encoding::group::merge is total (terminates: every iteration consumes a key; wrong wire type or exhausted budget => Err) over an assumed Message::merge_field that never lengthens the buffer. merge_loop (rule D23: the FnMut callback becomes a trait method with an assumed contract -- an Ok step consumes >= 1 byte, no step lengthens the buffer): a length prefix beyond the input is rejected with only the prefix consumed, success consumes exactly prefix + announced length, an empty payload is accepted, terminates. group::merge passes a strictly smaller budget to the nested field (ghost-instrumented call, D24); faststr::merge is decided like bytes::merge. Not decided: merge_loop (FnMut closure), string/message/group/map merge, bytes::merge_one_copy (Buf::take), Message::merge_length_delimited, wrappers in types.rs and generated merge_field'),
    'C11': dict(verus=['unsafe_skip', 'unsafe_lb'], kani=K_C11_W + K_C11_R, assumptions=A_COMMON[:1] + [A_LB, 'the documented preconditions of the unchecked codec (window of the reported size; complete well-formed input) are the harness assumptions'],
                not_covered='decided besides the per-primitive Kani harnesses: the unchecked header readers read_field_begin / read_list_begin / read_set_begin / read_map_begin and the iterative skipper (Verus unit unsafe_skip: values per the binary grammar, cursor advanced by exactly the encoded size, every unchecked read in bounds given a complete well-formed input). The unchecked reader\'s advance / read_bytes / get_bytes / skip are decided for their cursor and transport bookkeeping (the view `buf` stays equal to the transport, index reset, exactly the requested bytes split off) with the raw re-derivation of the view as an assumed step (D22). The LinkedBytes writer variant is decided only for the order of operations of its zero-copy paths over assumed primitive contracts (unit unsafe_lb). Not decided: the raw stores/loads themselves beyond the Kani per-primitive harnesses, read_faststr / read_bytes_vec / read_string of the unchecked reader'),
    'C12': dict(verus=['async_binary', 'async_binary_le', 'async_compact', 'async_skip', 'async_compact_skip'], kani=[], assumptions=A_COMMON + [
                    'A7 tokio AsyncReadExt::{read_u8,read_i8,read_i16[_le],read_i32[_le],read_i64[_le],read_f64[_le],read_exact,take(n).read_to_end} deliver the next bytes of the stream in order regardless of chunking or Pending wake-ups, or fail when the stream ends first (vf/units/_asyncrd.vu); the delivery-schedule quantifier of C12 is discharged by this assumption, not by pilota-side proof; for take(n).read_to_end it is also assumed that tokio reserves memory in proportion to the bytes delivered',
                    'D8: async fn -> fn, .await dropped: each awaited read is an atomic call'],
                not_covered=NOT_GEN + '; the async skipper is verified against the same value grammars as the in-memory skippers: bskip_val with the binary readers, cskip_val with the compact reader'),
    'C18': dict(verus=['prost'], kani=[h for h in K_PB if h not in ('pb_varint_roundtrip', 'pb_varint_decode_total')] + ['bnd_pb_merge_repeated_packed'], assumptions=A_COMMON[:1],
                not_covered='decided: "singular scalars take the last occurrence" (merge into an arbitrary pre-existing value, Kani), and the skipping of unknown fields of every wire type incl. nested groups (skip_field consumes exactly the field per the grammar pskip, Verus); repeated accumulation only by a bounded harness (thorough); map/oneof/embedded-message merge semantics and the generated merge_field dispatch (that unknown tags reach skip_field) are not decided'),
}

def _k(kind='leaf', quick=True, bound='', timeout=None):
    d = dict(kind=kind, quick=quick, bound=bound)
    if timeout:
        d['timeout'] = timeout
    return d

KANI_HARNESSES = {h: _k() for h in K_SUPPORT + K_C11_W + K_C11_R + K_PB + K_PB_MORE}
KANI_HARNESSES['bnd_len_ext_list'] = _k(kind='bounded', quick=True, bound='lists of exactly 3 i32 elements; compact and binary protocols')
KANI_HARNESSES['bnd_pb_merge_repeated_packed'] = _k(kind='bounded', quick=False, bound='existing vector of 1 element; packed run of 1..=2 one-byte varints then one unpacked element; fixed32 packed run of 1', timeout=1500)
KANI_HARNESSES['bnd_pb_map_len_btree+pbdef'] = dict(kind='bounded', quick=False, harness='bnd_pb_map_len_btree', args=['--features', 'pbdef'], bound='as bnd_pb_map_len_btree, pilota built with feature pb-encode-default-value')
KANI_HARNESSES['bnd_pb_map_len_btree'] = _k(kind='bounded', bound='BTreeMap<u32,u32> with one entry, key/value < 128, tag 1..=15')
for _h in ['pb_int64', 'pb_uint32', 'pb_uint64', 'pb_sint64']:   # pb_int32 (sign extension of negatives) stays in the quick tier
    KANI_HARNESSES[_h] = _k(quick=False)   # ~4 min each: thorough tier only
KANI_HARNESSES['bnd_c11_w_bytes_le5'] = _k(kind='bounded', bound='payload length 0..=5, arbitrary content')

# property -> [(regex on obligation name, replay program, args)]
WITNESS = {
    'C06': [(r'pbgen', 'replay_pb', [])],
    'C07': [(r'compact_skip', 'g4_compact_skip', [])],
}
