#!/bin/bash
# usage: seedrun.sh <seed id, e.g. C07-2> <scratch worktree of /repo at HEAD> <out file> [tier]
# 1. confirms the seeded change on the scratch worktree: the demo passes without the patch, fails with it,
#    and the inherited tests of the touched crate still pass with it;
# 2. runs ./check <prop> (tier quick unless given) with VERIF_REPO=<worktree> on the patched tree;
# 3. restores the worktree.  VERIF_HOME selects the /verif snapshot whose checks are used.
id=$1; wt=$2; out=$3; tier=${4:-quick}
home=${VERIF_HOME:-/verif}; sd=$home/seeded/$id; prop=${id%-*}
crate=$(python3 -c "import json;print(json.load(open('$sd/meta.json')).get('demo_crate','pilota'))")
feat=$(python3 -c "import json;print(json.load(open('$sd/meta.json')).get('demo_features',''))")
fa=""; [ -n "$feat" ] && fa="--features $feat"
exec > "$out" 2>&1
cd "$wt" || exit 9
git checkout -q -- . ; rm -rf $crate/tests/seed_demo.rs
mkdir -p $crate/tests; cp "$sd/demo.rs" $crate/tests/seed_demo.rs
echo "== demo without patch"; cargo test -p $crate --offline $fa --test seed_demo 2>&1 | grep -E "^test result|panicked|error(\[|:)" | head -5
git apply "$sd/patch.diff" || { echo "PATCH DOES NOT APPLY"; }
echo "== demo with patch"; cargo test -p $crate --offline $fa --test seed_demo 2>&1 | grep -E "^test result|panicked|error(\[|:)" | head -5
rm -f $crate/tests/seed_demo.rs; rmdir $crate/tests 2>/dev/null
echo "== inherited $crate tests with patch"; cargo test -p $crate --offline -- --skip test_thrift_workspace_gen --skip test_thrift_workspace_with_split_gen 2>&1 | grep -E "^test result" | head -2
echo "== check $prop tier=$tier"; cd $home; VERIF_REPO="$wt" ./check "$prop" --tier $tier > /tmp/seedcheck.$$ 2>&1; ce=$?; grep -E "^(VIOLATION|KNOWN-FINDING|OK|NO-VERDICT|   )" /tmp/seedcheck.$$ | cut -c1-400 | tail -12; rm -f /tmp/seedcheck.$$; echo "check-exit=$ce"
cd "$wt"; git checkout -q -- . ; git status --short | head -3
