#!/usr/bin/env python3
"""import_seeds.py <worktree> <round label>: copy <worktree>/SEED/Cxx-i/{patch.diff,demo.rs,README.md} into
/verif/seeded/Cxx-<next free number>/ and write a meta.json skeleton (change = README title, demo crate from the
README line `demo_crate: ..`).  Prints the new ids."""
import sys, os, re, json, glob, shutil
wt, label = sys.argv[1], sys.argv[2]
base = '/verif/seeded'
new = []
for d in sorted(glob.glob(os.path.join(wt, 'SEED', 'C*-*'))):
    prop = os.path.basename(d).split('-')[0]
    nums = [int(os.path.basename(x).split('-')[1]) for x in glob.glob(os.path.join(base, prop + '-*'))]
    n = max(nums + [0]) + 1
    dst = os.path.join(base, '%s-%d' % (prop, n))
    os.makedirs(dst)
    for f in ('patch.diff', 'demo.rs', 'README.md'):
        shutil.copy(os.path.join(d, f), dst)
    readme = open(os.path.join(dst, 'README.md')).read()
    title = next((l.lstrip('# ').strip() for l in readme.split('\n') if l.strip()), '')
    m = re.search(r'demo_crate:\s*`?([\w-]+)', readme)
    crate = m.group(1) if m else ('pilota-build' if 'pilota-build/' in open(os.path.join(dst, 'patch.diff')).read() else 'pilota')
    meta = {'id': '%s-%d' % (prop, n), 'property': prop, 'change': title, 'needs_to_manifest': 'see README.md', 'demo_crate': crate,
            'demo_features': '', 'origin': '%s round: fresh sub-agent given the property text, a scratch worktree and the list of changes already made; confirmed by selftest/seedrun.sh' % label}
    json.dump(meta, open(os.path.join(dst, 'meta.json'), 'w'), indent=1)
    new.append(meta['id'])
print(' '.join(new))
