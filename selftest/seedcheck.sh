#!/bin/bash
# usage: seedcheck.sh <seed dir with patch.diff demo.rs> <prop> <worktree> <out file>
# Confirms the seeded change (demo passes without, fails with; baseline pilota tests pass with),
# then runs ./check <prop> against the patched worktree.
sd=$1; prop=$2; wt=$3; out=$4
exec > "$out" 2>&1
cd "$wt" || exit 9
git checkout -q -- . ; rm -rf pilota/tests
mkdir -p pilota/tests; cp "$sd/demo.rs" pilota/tests/seed_demo.rs
echo "== demo without patch"; cargo test -p pilota --offline --test seed_demo 2>&1 | grep -E "^test result|panicked|error(\[|:)" | head -5
git apply "$sd/patch.diff" || { echo "PATCH DOES NOT APPLY"; }
echo "== demo with patch"; cargo test -p pilota --offline --test seed_demo 2>&1 | grep -E "^test result|panicked|error(\[|:)" | head -5
rm -rf pilota/tests
echo "== baseline pilota tests with patch"; cargo test -p pilota --offline 2>&1 | grep -E "^test result" | head -2
echo "== check $prop"; cd ${VERIF_HOME:-/verif}; VERIF_REPO="$wt" ./check "$prop" > /tmp/seedcheck.$$ 2>&1; ce=$?; tail -8 /tmp/seedcheck.$$; rm -f /tmp/seedcheck.$$; echo "check-exit=$ce"
cd "$wt"; git checkout -q -- . ; git status --short | head -3
