#!/bin/bash
# usage: benignrun.sh <dir with patch.diff> <scratch worktree of /repo at HEAD> <out file>
# Applies a BEHAVIOUR-PRESERVING refactoring and runs the quick checks of every property whose units read the touched
# file.  Expected: OK or NO-VERDICT (exit 2) everywhere; a VIOLATION here is a false alarm of the machinery.
bd=$1; wt=$2; out=$3
home=${VERIF_HOME:-/verif}
exec > "$out" 2>&1
cd "$wt" || exit 9
git checkout -q -- .
git apply "$bd/patch.diff" || { echo "PATCH DOES NOT APPLY"; exit 8; }
files=$(git diff --name-only)
echo "== files: $files"
echo "== inherited tests"; cargo test -p pilota --offline 2>&1 | grep -E "^test result" | head -1
case "$files" in *pilota-build*) cargo test -p pilota-build --offline -- --skip test_thrift_workspace_gen --skip test_thrift_workspace_with_split_gen 2>&1 | grep -E "^test result" | head -1;; esac
props=""
case "$files" in *prost*) props="C05 C10 C18";; esac
case "$files" in *thrift*) props="$props C01 C03 C04 C07 C09 C11 C12";; esac
case "$files" in *pilota-build*) props="$props C06";; esac
for p in $props; do
  cd $home; VERIF_REPO="$wt" ./check $p > /tmp/benign.$$ 2>&1; ce=$?
  echo "-- $p exit=$ce $(grep -E '^(VIOLATION|OK|NO-VERDICT)' /tmp/benign.$$ | head -1 | cut -c1-200)"
  grep -E "^   " /tmp/benign.$$ | head -3 | cut -c1-240
done
rm -f /tmp/benign.$$
cd "$wt"; git checkout -q -- .
echo BENIGN-DONE
