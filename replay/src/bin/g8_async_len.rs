//! G8 (C09, C12): the async readers take a length from the wire and allocate it before reading.
//! A negative length must give an error (the in-memory reader does), not a `capacity overflow` panic.
use pilota::thrift::{binary::TAsyncBinaryProtocol, compact::TAsyncCompactProtocol, TAsyncInputProtocol};
fn main() {
    let which = std::env::args().nth(1).unwrap_or_default();
    let rt = tokio::runtime::Builder::new_current_thread().build().unwrap();
    let neg: &[u8] = &[0xff, 0xff, 0xff, 0xff, 0x41];
    if which.is_empty() || which == "bin.read_bytes_vec" {
        let r = rt.block_on(async { TAsyncBinaryProtocol::new(neg).read_bytes_vec().await });
        println!("bin.read_bytes_vec(-1) -> {}", if r.is_ok() { "Ok" } else { "Err" });
        assert!(r.is_err());
    }
    if which.is_empty() || which == "bin.read_string" {
        let r = rt.block_on(async { TAsyncBinaryProtocol::new(neg).read_string().await });
        println!("bin.read_string(-1) -> {}", if r.is_ok() { "Ok" } else { "Err" });
        assert!(r.is_err());
    }
    if which.is_empty() || which == "compact.huge" {
        // compact: unsigned varint 0xffff_ffff as length with one byte of payload: must fail without
        // first requesting 4 GiB
        let huge: &[u8] = &[0xff, 0xff, 0xff, 0xff, 0x0f, 0x41];
        let r = rt.block_on(async { TAsyncCompactProtocol::new(huge).read_bytes_vec().await });
        println!("compact.read_bytes_vec(4 GiB, 1 byte present) -> {}", if r.is_ok() { "Ok" } else { "Err" });
        assert!(r.is_err());
    }
}
