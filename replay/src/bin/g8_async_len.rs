//! G8 (C09, C12): the async readers take a length from the wire and allocate it before reading.
//! A negative length must give an error (the in-memory reader does), not a `capacity overflow` panic.
use pilota::thrift::{binary::TAsyncBinaryProtocol, compact::TAsyncCompactProtocol, TAsyncInputProtocol};
use std::alloc::{GlobalAlloc, Layout, System};
use std::sync::atomic::{AtomicUsize, Ordering};
/// largest single request made to the global allocator
static MAX_REQ: AtomicUsize = AtomicUsize::new(0);
struct Counting;
unsafe impl GlobalAlloc for Counting {
    unsafe fn alloc(&self, l: Layout) -> *mut u8 { MAX_REQ.fetch_max(l.size(), Ordering::Relaxed); System.alloc(l) }
    unsafe fn alloc_zeroed(&self, l: Layout) -> *mut u8 { MAX_REQ.fetch_max(l.size(), Ordering::Relaxed); System.alloc_zeroed(l) }
    unsafe fn realloc(&self, p: *mut u8, l: Layout, n: usize) -> *mut u8 { MAX_REQ.fetch_max(n, Ordering::Relaxed); System.realloc(p, l, n) }
    unsafe fn dealloc(&self, p: *mut u8, l: Layout) { System.dealloc(p, l) }
}
#[global_allocator]
static A: Counting = Counting;
fn main() {
    let which = std::env::args().nth(1).unwrap_or_default();
    let rt = tokio::runtime::Builder::new_current_thread().build().unwrap();
    let neg: &[u8] = &[0xff, 0xff, 0xff, 0xff, 0x41];
    if which.is_empty() || which == "bin.read_bytes_vec" {
        let r = rt.block_on(async { TAsyncBinaryProtocol::new(neg).read_bytes_vec().await });
        println!("bin.read_bytes_vec(-1) -> {}", if r.is_ok() { "Ok" } else { "Err" });
        assert!(r.is_err());
    }
    if which.is_empty() || which == "bin.read_string" {
        let r = rt.block_on(async { TAsyncBinaryProtocol::new(neg).read_string().await });
        println!("bin.read_string(-1) -> {}", if r.is_ok() { "Ok" } else { "Err" });
        assert!(r.is_err());
    }
    if which.is_empty() || which == "compact.huge" {
        // compact: unsigned varint 0xffff_ffff as length with one byte of payload: must fail without
        // first requesting 4 GiB
        let huge: &[u8] = &[0xff, 0xff, 0xff, 0xff, 0x0f, 0x41];
        let r = rt.block_on(async { TAsyncCompactProtocol::new(huge).read_bytes_vec().await });
        println!("compact.read_bytes_vec(4 GiB, 1 byte present) -> {}", if r.is_ok() { "Ok" } else { "Err" });
        assert!(r.is_err());
    }
    if which.is_empty() || which == "alloc" {
        // G8b: a declared length of 1 GiB with 1 byte present must not request 1 GiB from the allocator
        let big: &[u8] = &[0x40, 0x00, 0x00, 0x00, 0x41];
        MAX_REQ.store(0, Ordering::Relaxed);
        let r = rt.block_on(async { TAsyncBinaryProtocol::new(big).read_string().await });
        let m = MAX_REQ.load(Ordering::Relaxed);
        println!("bin.read_string(1 GiB declared, 1 byte present) -> {} largest allocation request {} bytes", if r.is_ok() { "Ok" } else { "Err" }, m);
        assert!(r.is_err());
        assert!(m <= (1 << 20), "allocation out of proportion to the 5-byte input");
        let huge: &[u8] = &[0xff, 0xff, 0xff, 0xff, 0x07, 0x41];
        MAX_REQ.store(0, Ordering::Relaxed);
        let r = rt.block_on(async { TAsyncCompactProtocol::new(huge).read_bytes_vec().await });
        let m = MAX_REQ.load(Ordering::Relaxed);
        println!("compact.read_bytes_vec(2 GiB declared, 1 byte present) -> {} largest allocation request {} bytes", if r.is_ok() { "Ok" } else { "Err" }, m);
        assert!(r.is_err());
        assert!(m <= (1 << 20), "allocation out of proportion to the 6-byte input");
    }
    if which.is_empty() || which == "roundtrip" {
        // the values still decode: lengths below, at and above the preallocation limit
        for n in [0usize, 1, 65535, 65536, 65537, 300_000] {
            let mut b = (n as i32).to_be_bytes().to_vec();
            b.extend((0..n).map(|i| (i % 251) as u8));
            b.push(0x7e);
            let mut p = TAsyncBinaryProtocol::new(&b[..]);
            let v = rt.block_on(async { p.read_bytes_vec().await }).unwrap();
            assert!(v.len() == n && v[..] == b[4..4 + n]);
            let nxt = rt.block_on(async { p.read_byte().await }).unwrap();
            assert!(nxt == 0x7e, "read past or short of the value");
        }
        println!("roundtrip of 0..300000-byte values ok, next byte intact");
    }
}
