//! G10 (C09): a compact field header whose delta pushes the field id past i16::MAX must give an
//! error (or any value), never an arithmetic-overflow panic.
use bytes::Bytes;
use pilota::thrift::{compact::TCompactInputProtocol, TInputProtocol};
fn main() {
    // long-form header: type i32 (5), id 32767 (zigzag 65534 = fe ff 03); value 0; short-form header delta 1, type i32
    let mut b = Bytes::from_static(&[0x05, 0xfe, 0xff, 0x03, 0x00, 0x15, 0x00, 0x00]);
    let mut i = TCompactInputProtocol::new(&mut b);
    i.read_struct_begin().unwrap();
    let f = i.read_field_begin().unwrap();
    assert_eq!(f.id, Some(32767));
    i.read_i32().unwrap();
    i.read_field_end().unwrap();
    let r = i.read_field_begin();
    println!("second header -> {}", if r.is_ok() { "Ok" } else { "Err" });
}
