//! G9 (C11): the unchecked writer over `&mut BytesMut` must write into the window it was given
//! (`buf`, the spare capacity after the bytes already in `trans`), exactly like the checked writer
//! appends after them -- also when `trans` is not empty at construction.
use bytes::{BufMut, BytesMut};
use pilota::thrift::{binary::TBinaryProtocol, binary_unsafe::TBinaryUnsafeOutputProtocol, TOutputProtocol};
fn main() {
    let prefix = [0xAAu8, 0xBB, 0xCC, 0xDD];
    // checked reference
    let mut want = BytesMut::with_capacity(64);
    want.put_slice(&prefix);
    { let mut p = TBinaryProtocol::new(&mut want, false); p.write_byte(7).unwrap(); p.write_i32(0x01020304).unwrap(); p.write_i16(0x0506).unwrap(); }
    // unchecked writer on a transport that already holds the same prefix
    let mut trans = BytesMut::with_capacity(64);
    trans.put_slice(&prefix);
    let n;
    {
        let buf: &'static mut [u8] = unsafe {
            let l = trans.len();
            std::slice::from_raw_parts_mut(trans.as_mut_ptr().add(l), trans.capacity() - l)
        };
        let mut p = unsafe { TBinaryUnsafeOutputProtocol::new(&mut trans, buf, false) };
        p.write_byte(7).unwrap();
        p.write_i32(0x01020304).unwrap();
        p.write_i16(0x0506).unwrap();
        n = p.index();
    }
    unsafe { trans.advance_mut(n) };
    println!("checked   = {:02x?}", &want[..]);
    println!("unchecked = {:02x?}", &trans[..]);
    assert_eq!(&want[..], &trans[..], "unchecked writer differs from the checked writer");
}
