//! G2 (C01): after a nested struct ends the compact reader must restore the outer field-id context,
//! so that a sibling field written with a delta header is read with the right id.
use bytes::BytesMut;
use pilota::thrift::{compact::{TCompactInputProtocol, TCompactOutputProtocol}, TInputProtocol, TOutputProtocol, TStructIdentifier, TType};
fn main() {
    let mut buf = BytesMut::new();
    {
        let mut o = TCompactOutputProtocol::new(&mut buf, false);
        let sid = TStructIdentifier::new("s");
        o.write_struct_begin(&sid).unwrap();
        o.write_field_begin(TType::Struct, 5).unwrap();
        o.write_struct_begin(&sid).unwrap();
        o.write_field_begin(TType::I32, 9).unwrap();
        o.write_i32(7).unwrap();
        o.write_field_end().unwrap();
        o.write_field_stop().unwrap();
        o.write_struct_end().unwrap();
        o.write_field_end().unwrap();
        o.write_field_begin(TType::I32, 6).unwrap(); // sibling: delta 1 from id 5
        o.write_i32(8).unwrap();
        o.write_field_end().unwrap();
        o.write_field_stop().unwrap();
        o.write_struct_end().unwrap();
    }
    let mut b = buf.freeze();
    let mut i = TCompactInputProtocol::new(&mut b);
    i.read_struct_begin().unwrap();
    let f = i.read_field_begin().unwrap();
    assert_eq!(f.id, Some(5));
    i.read_struct_begin().unwrap();
    let f = i.read_field_begin().unwrap();
    assert_eq!(f.id, Some(9));
    assert_eq!(i.read_i32().unwrap(), 7);
    i.read_field_end().unwrap();
    assert_eq!(i.read_field_begin().unwrap().field_type, TType::Stop);
    i.read_struct_end().unwrap();
    i.read_field_end().unwrap();
    let f = i.read_field_begin().unwrap();
    println!("sibling field id read = {:?} (written 6)", f.id);
    assert_eq!(f.id, Some(6), "outer field-id context not restored after nested struct");
}
