//! G1 (C01, C03): compact double must be little-endian on the wire (thrift-compact-protocol.md)
//! and must round-trip through pilota's own reader.
use bytes::BytesMut;
use pilota::thrift::{compact::{TCompactInputProtocol, TCompactOutputProtocol}, TInputProtocol, TOutputProtocol};
fn main() {
    let d = 1.0f64; // bits 0x3ff0_0000_0000_0000
    let mut buf = BytesMut::new();
    TCompactOutputProtocol::new(&mut buf, false).write_double(d).unwrap();
    let wire = buf.to_vec();
    println!("wire = {:02x?}", wire);
    let mut b = buf.freeze();
    let back = TCompactInputProtocol::new(&mut b).read_double().unwrap();
    println!("read back = {}", back);
    assert_eq!(wire, d.to_le_bytes().to_vec(), "compact double is not little-endian");
    assert_eq!(back.to_bits(), d.to_bits(), "compact double does not round trip");
}
