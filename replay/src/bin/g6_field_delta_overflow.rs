//! G6 (C01, C04): field ids more than 32767 apart (e.g. -1 then 32767) must be written and sized
//! without an arithmetic-overflow panic.
use bytes::BytesMut;
use pilota::thrift::{compact::{TCompactInputProtocol, TCompactOutputProtocol}, TInputProtocol, TLengthProtocol, TOutputProtocol, TStructIdentifier, TType};
fn main() {
    let sid = TStructIdentifier::new("s");
    let mut buf = BytesMut::new();
    let mut o = TCompactOutputProtocol::new(&mut buf, false);
    let mut n = o.struct_begin_len(&sid);
    n += o.field_begin_len(TType::I32, Some(-2)); n += o.i32_len(1); n += o.field_end_len();
    n += o.field_begin_len(TType::I32, Some(32767)); n += o.i32_len(2); n += o.field_end_len();
    n += o.field_stop_len(); n += o.struct_end_len();
    o.write_struct_begin(&sid).unwrap();
    o.write_field_begin(TType::I32, -2).unwrap(); o.write_i32(1).unwrap(); o.write_field_end().unwrap();
    o.write_field_begin(TType::I32, 32767).unwrap(); o.write_i32(2).unwrap(); o.write_field_end().unwrap();
    o.write_field_stop().unwrap(); o.write_struct_end().unwrap();
    assert_eq!(n, buf.len());
    let mut b = buf.freeze();
    let mut i = TCompactInputProtocol::new(&mut b);
    i.read_struct_begin().unwrap();
    assert_eq!(i.read_field_begin().unwrap().id, Some(-2)); assert_eq!(i.read_i32().unwrap(), 1); i.read_field_end().unwrap();
    assert_eq!(i.read_field_begin().unwrap().id, Some(32767)); assert_eq!(i.read_i32().unwrap(), 2); i.read_field_end().unwrap();
    println!("ok");
}
