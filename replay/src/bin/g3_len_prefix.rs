//! Demonstration for finding G3 (property C09): a length prefix larger than the remaining input
//! must give Err, not a panic.  Exit status 0 = every decoder returned (Ok or Err); a panic aborts
//! with status 101.
use bytes::Bytes;
use pilota::thrift::{binary::TBinaryProtocol, binary_le, compact::TCompactInputProtocol, TInputProtocol};

fn main() {
    let which = std::env::args().nth(1).unwrap_or_default();
    // i32 length 0x7fffffff followed by one byte
    let be: &[u8] = &[0x7f, 0xff, 0xff, 0xff, 0x41];
    let le: &[u8] = &[0xff, 0xff, 0xff, 0x7f, 0x41];
    // compact: varint u32 100, then one byte
    let cp: &[u8] = &[100, 0x41];
    macro_rules! run { ($name:expr, $e:expr) => { if which.is_empty() || which == $name { let r = $e; println!("{} -> {}", $name, if r.is_ok() { "Ok" } else { "Err" }); } } }
    run!("bin.read_bytes", { let mut b = Bytes::copy_from_slice(be); TBinaryProtocol::new(&mut b, false).read_bytes() });
    run!("bin.read_faststr", { let mut b = Bytes::copy_from_slice(be); TBinaryProtocol::new(&mut b, false).read_faststr() });
    run!("bin.read_bytes_vec", { let mut b = Bytes::copy_from_slice(be); TBinaryProtocol::new(&mut b, false).read_bytes_vec() });
    run!("binle.read_bytes", { let mut b = Bytes::copy_from_slice(le); binary_le::TBinaryProtocol::new(&mut b, false).read_bytes() });
    run!("binle.read_faststr", { let mut b = Bytes::copy_from_slice(le); binary_le::TBinaryProtocol::new(&mut b, false).read_faststr() });
    run!("binle.read_bytes_vec", { let mut b = Bytes::copy_from_slice(le); binary_le::TBinaryProtocol::new(&mut b, false).read_bytes_vec() });
    run!("compact.read_bytes", { let mut b = Bytes::copy_from_slice(cp); TCompactInputProtocol::new(&mut b).read_bytes() });
    run!("compact.read_faststr", { let mut b = Bytes::copy_from_slice(cp); TCompactInputProtocol::new(&mut b).read_faststr() });
    run!("compact.read_bytes_vec", { let mut b = Bytes::copy_from_slice(cp); TCompactInputProtocol::new(&mut b).read_bytes_vec() });
}
