//! G4 (C07): skipping an unknown i32 field through the compact reader must consume exactly the
//! varint that encodes it, so that the next field decodes correctly.
use bytes::BytesMut;
use pilota::thrift::{compact::{TCompactInputProtocol, TCompactOutputProtocol}, TInputProtocol, TOutputProtocol, TStructIdentifier, TType, TListIdentifier, TSetIdentifier, TMapIdentifier};
fn main() {
    let sid = TStructIdentifier::new("s");
    let mut buf = BytesMut::new();
    {
        let mut o = TCompactOutputProtocol::new(&mut buf, false);
        o.write_struct_begin(&sid).unwrap();
        o.write_field_begin(TType::I32, 1).unwrap(); o.write_i32(7).unwrap(); o.write_field_end().unwrap();      // "unknown" field: 1 byte on the wire
        o.write_field_begin(TType::I64, 2).unwrap(); o.write_i64(1234567).unwrap(); o.write_field_end().unwrap(); // known field
        o.write_field_stop().unwrap();
        o.write_struct_end().unwrap();
    }
    let total = buf.len();
    let mut b = buf.freeze();
    let mut i = TCompactInputProtocol::new(&mut b);
    i.read_struct_begin().unwrap();
    let f = i.read_field_begin().unwrap();
    assert_eq!((f.field_type, f.id), (TType::I32, Some(1)));
    let r = i.skip(TType::I32);
    println!("skip(I32) over a 1-byte compact varint -> {:?} (whole struct is {} bytes)", r.as_ref().map(|n| *n).map_err(|_| "Err"), total);
    let n = r.expect("skip of a well-formed value must succeed");
    assert_eq!(n, 1, "skip must report the 1 byte the value occupies");
    i.read_field_end().unwrap();
    let f = i.read_field_begin().unwrap();
    assert_eq!((f.field_type, f.id), (TType::I64, Some(2)));
    assert_eq!(i.read_i64().unwrap(), 1234567);
    tree();
}
/// a value tree with every wire type, skipped as one struct: the count is the whole encoding and the
/// byte that follows is still there
fn tree() {
    let sid = TStructIdentifier::new("s");
    let mut buf = BytesMut::new();
    {
        let mut o = TCompactOutputProtocol::new(&mut buf, false);
        o.write_struct_begin(&sid).unwrap();
        o.write_field_begin(TType::Bool, 1).unwrap(); o.write_bool(true).unwrap(); o.write_field_end().unwrap();
        o.write_field_begin(TType::I8, 2).unwrap(); o.write_i8(-3).unwrap(); o.write_field_end().unwrap();
        o.write_field_begin(TType::I16, 300).unwrap(); o.write_i16(-300).unwrap(); o.write_field_end().unwrap();
        o.write_field_begin(TType::Double, 301).unwrap(); o.write_double(1.5).unwrap(); o.write_field_end().unwrap();
        o.write_field_begin(TType::Binary, 302).unwrap(); o.write_string("hello compact").unwrap(); o.write_field_end().unwrap();
        o.write_field_begin(TType::Uuid, 303).unwrap(); o.write_uuid([7u8; 16]).unwrap(); o.write_field_end().unwrap();
        o.write_field_begin(TType::List, 304).unwrap();
        o.write_list_begin(TListIdentifier { element_type: TType::Bool, size: 3 }).unwrap();
        o.write_bool(true).unwrap(); o.write_bool(false).unwrap(); o.write_bool(true).unwrap();
        o.write_list_end().unwrap(); o.write_field_end().unwrap();
        o.write_field_begin(TType::Set, 305).unwrap();
        o.write_set_begin(TSetIdentifier { element_type: TType::I64, size: 20 }).unwrap();
        for k in 0..20i64 { o.write_i64(k * 1_000_000_007).unwrap(); }
        o.write_set_end().unwrap(); o.write_field_end().unwrap();
        o.write_field_begin(TType::Map, 306).unwrap();
        o.write_map_begin(TMapIdentifier { key_type: TType::I32, value_type: TType::Struct, size: 2 }).unwrap();
        for k in 0..2 {
            o.write_i32(k).unwrap();
            o.write_struct_begin(&sid).unwrap();
            o.write_field_begin(TType::Bool, 9).unwrap(); o.write_bool(false).unwrap(); o.write_field_end().unwrap();
            o.write_field_begin(TType::I32, 10).unwrap(); o.write_i32(k * 70000).unwrap(); o.write_field_end().unwrap();
            o.write_field_stop().unwrap();
            o.write_struct_end().unwrap();
        }
        o.write_map_end().unwrap(); o.write_field_end().unwrap();
        o.write_field_begin(TType::Map, 307).unwrap();
        o.write_map_begin(TMapIdentifier { key_type: TType::I32, value_type: TType::I32, size: 0 }).unwrap();
        o.write_map_end().unwrap(); o.write_field_end().unwrap();
        o.write_field_stop().unwrap();
        o.write_struct_end().unwrap();
    }
    let total = buf.len();
    buf.extend_from_slice(&[0x5a]);
    let mut b = buf.freeze();
    let mut i = TCompactInputProtocol::new(&mut b);
    let r = i.skip(TType::Struct);
    println!("skip(Struct) over a {}-byte value tree -> {:?}", total, r.as_ref().map(|n| *n).map_err(|_| "Err"));
    assert_eq!(r.expect("skip of a well-formed struct must succeed"), total);
    assert_eq!(i.read_byte().unwrap(), 0x5a, "what follows the skipped value must be intact");
}
