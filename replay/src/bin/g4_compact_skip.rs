//! G4 (C07): skipping an unknown i32 field through the compact reader must consume exactly the
//! varint that encodes it, so that the next field decodes correctly.
use bytes::BytesMut;
use pilota::thrift::{compact::{TCompactInputProtocol, TCompactOutputProtocol}, TInputProtocol, TOutputProtocol, TStructIdentifier, TType};
fn main() {
    let sid = TStructIdentifier::new("s");
    let mut buf = BytesMut::new();
    {
        let mut o = TCompactOutputProtocol::new(&mut buf, false);
        o.write_struct_begin(&sid).unwrap();
        o.write_field_begin(TType::I32, 1).unwrap(); o.write_i32(7).unwrap(); o.write_field_end().unwrap();      // "unknown" field: 1 byte on the wire
        o.write_field_begin(TType::I64, 2).unwrap(); o.write_i64(1234567).unwrap(); o.write_field_end().unwrap(); // known field
        o.write_field_stop().unwrap();
        o.write_struct_end().unwrap();
    }
    let total = buf.len();
    let mut b = buf.freeze();
    let mut i = TCompactInputProtocol::new(&mut b);
    i.read_struct_begin().unwrap();
    let f = i.read_field_begin().unwrap();
    assert_eq!((f.field_type, f.id), (TType::I32, Some(1)));
    let r = i.skip(TType::I32);
    println!("skip(I32) over a 1-byte compact varint -> {:?} (whole struct is {} bytes)", r.as_ref().map(|n| *n).map_err(|_| "Err"), total);
    let n = r.expect("skip of a well-formed value must succeed");
    assert_eq!(n, 1, "skip must report the 1 byte the value occupies");
    i.read_field_end().unwrap();
    let f = i.read_field_begin().unwrap();
    assert_eq!((f.field_type, f.id), (TType::I64, Some(2)));
    assert_eq!(i.read_i64().unwrap(), 1234567);
}
