//! G5 (C07, C12): the asynchronous skipper must skip a uuid value (16 bytes) like the in-memory one.
use bytes::Bytes;
use pilota::thrift::{binary::{TAsyncBinaryProtocol, TBinaryProtocol}, TAsyncInputProtocol, TInputProtocol, TType};
fn main() {
    let mut data = vec![0xABu8; 16];
    data.extend_from_slice(&[0x00, 0x00, 0x00, 0x07]); // an i32 that follows the uuid
    // in-memory
    let mut b = Bytes::from(data.clone());
    let mut p = TBinaryProtocol::new(&mut b, false);
    let n = p.skip(TType::Uuid).expect("sync skip of a uuid");
    assert_eq!(n, 16);
    assert_eq!(p.read_i32().unwrap(), 7);
    // asynchronous
    let rt = tokio::runtime::Builder::new_current_thread().build().unwrap();
    let r = rt.block_on(async {
        let mut p = TAsyncBinaryProtocol::new(&data[..]);
        p.skip(TType::Uuid).await?;
        p.read_i32().await
    });
    println!("async skip(Uuid) then read_i32 -> {:?}", r.as_ref().map_err(|_| "Err"));
    assert_eq!(r.ok(), Some(7), "the async skipper does not skip uuid values");
}
