#!/usr/bin/env python3
"""Mechanical extractor: real functions of /repo  ->  one Verus file per unit.

The verified text is the text that is in /repo *now*: every run re-reads the
source files, locates items by (container header regex, item name) -- never by
line number -- and copies signature and body verbatim, except for the rewrite
rules D1..D12 below, which are applied textually and counted per run.

Unit description files (vf/units/*.vu) are line oriented:

  %file  <path relative to repo root>     select the source file
  %raw                                     verbatim Verus text (specs, external
  ...                                      specs, lemmas) until %endraw
  %endraw
  %include <path relative to vf/>          splice a file verbatim
  %item  <kind> <name> [opts]              extract struct/enum/const/static/macro-free item
  %in    <regex> [=> <new header>]         enter a container (impl/mod/trait) whose
                                           header line matches <regex>; emitted with
                                           <new header> (D4) or its own header
  %fn    <name> [as <newname>] [opts]      extract fn <name> from the current container;
     <clause lines, indented>              contract clauses spliced between signature and body
     %loop <n>                             following indented lines are the invariant block
                                           of the n-th loop (1-based) of this fn
     %hint <anchor-substring>              following indented lines are ghost code inserted
                                           before the first body line containing the anchor
  %out                                     leave the container
  %expect-fail <fn>                        (not used for verdicts; documentation only)

Everything that is not copied from /repo lives in the .vu file or in vf/spec.
"""
import hashlib
import os
import re
import sys

# --------------------------------------------------------------------------
# lexical helpers


def _skip_string(s, i):
    """s[i] == '"' ; return index after closing quote."""
    n = len(s)
    i += 1
    while i < n:
        c = s[i]
        if c == '\\':
            i += 2
            continue
        if c == '"':
            return i + 1
        i += 1
    return n


def _skip_raw_string(s, i):
    """s[i] == 'r' and a raw string starts here; return index after it, or None."""
    m = re.match(r'r(#*)"', s[i:])
    if not m:
        return None
    hashes = m.group(1)
    end = s.find('"' + hashes, i + len(m.group(0)))
    if end < 0:
        return len(s)
    return end + 1 + len(hashes)


def _skip_char_or_lifetime(s, i):
    """s[i] == "'" ; char literal or lifetime."""
    m = re.match(r"'(\\.[^']*|[^'\\])'", s[i:])
    if m:
        return i + len(m.group(0))
    m = re.match(r"'[A-Za-z_][A-Za-z0-9_]*", s[i:])
    if m:
        return i + len(m.group(0))
    return i + 1


def scan(s, i, stop):
    """Generic scanner: walks s from i, skipping comments/strings/chars, calling
    stop(ch, idx, depth_tuple) on structural characters.  Yields (idx, ch) for
    every code character (not inside comment/string)."""
    n = len(s)
    while i < n:
        c = s[i]
        if c == '/' and i + 1 < n and s[i + 1] == '/':
            j = s.find('\n', i)
            i = n if j < 0 else j
            continue
        if c == '/' and i + 1 < n and s[i + 1] == '*':
            depth = 1
            i += 2
            while i < n and depth:
                if s.startswith('/*', i):
                    depth += 1
                    i += 2
                elif s.startswith('*/', i):
                    depth -= 1
                    i += 2
                else:
                    i += 1
            continue
        if c == '"':
            i = _skip_string(s, i)
            continue
        if c == 'r' and (i == 0 or not (s[i - 1].isalnum() or s[i - 1] == '_')):
            j = _skip_raw_string(s, i)
            if j is not None:
                i = j
                continue
        if c == 'b' and i + 1 < n and s[i + 1] == '"' and (i == 0 or not (s[i - 1].isalnum() or s[i - 1] == '_')):
            i = _skip_string(s, i + 1)
            continue
        if c == "'":
            i = _skip_char_or_lifetime(s, i)
            continue
        yield i, c
        i += 1


def match_close(s, i):
    """s[i] in '({[' ; return index of the matching closer."""
    opener = s[i]
    closer = {'(': ')', '{': '}', '[': ']'}[opener]
    depth = 0
    for j, c in scan(s, i, None):
        if c == opener:
            depth += 1
        elif c == closer:
            depth -= 1
            if depth == 0:
                return j
    raise ValueError('unbalanced %r at %d' % (opener, i))


def code_mask(s):
    """Return a string of same length where comment/string/char content is
    replaced by spaces (newlines kept) so regexes only see code."""
    out = [' '] * len(s)
    for j, c in scan(s, 0, None):
        out[j] = c
    for j, c in enumerate(s):
        if c == '\n':
            out[j] = '\n'
    return ''.join(out)


# --------------------------------------------------------------------------
# item location


class Lost(Exception):
    """An anchor could not be found: no verdict (exit 2), never an alarm."""


class Container:
    def __init__(self, src, mask, start, body_open, body_close, header):
        self.src, self.mask = src, mask
        self.start, self.body_open, self.body_close = start, body_open, body_close
        self.header = header

    def body_range(self):
        return self.body_open + 1, self.body_close


def top_level_blocks(src, mask, lo, hi):
    """Yield (header_start, open_brace, close_brace) for every `{...}` block at
    nesting depth 0 inside src[lo:hi], where header_start is the start of the
    item (after the previous ';' or '}' at depth 0)."""
    i = lo
    item_start = lo
    depth_paren = 0
    while i < hi:
        c = mask[i]
        if c in '([':
            i = match_close(src, i) + 1
            continue
        if c == '{':
            close = match_close(src, i)
            yield item_start, i, close
            i = close + 1
            item_start = i
            continue
        if c == ';':
            item_start = i + 1
        i += 1


def find_container(src, mask, lo, hi, regex, having=None):
    rx = re.compile(regex)
    hits = []
    for hs, ob, cb in top_level_blocks(src, mask, lo, hi):
        header = ' '.join(mask[hs:ob].split())
        # drop attributes from header text
        header_noattr = re.sub(r'#\s*!?\[[^\]]*\]\s*', '', header)
        if rx.search(header_noattr):
            hits.append(Container(src, mask, hs, ob, cb, header_noattr))
    if having and len(hits) > 1:
        # several blocks with the same header (e.g. two `impl T {`): take the one that defines fn <having>
        keep = []
        for c in hits:
            try:
                find_fn(src, mask, c.body_open + 1, c.body_close, having)
                keep.append(c)
            except Lost:
                pass
        hits = keep
    if not hits:
        raise Lost('container /%s/ not found' % regex)
    if len(hits) > 1:
        raise Lost('container /%s/ ambiguous (%d matches)' % (regex, len(hits)))
    return hits[0]


def find_fn(src, mask, lo, hi, name):
    """Locate `fn name` among the top-level items of src[lo:hi].  Returns
    (item_start, sig_start, open_brace, close_brace)."""
    rx = re.compile(r'\bfn\s+' + re.escape(name) + r'\b')
    hits = []
    for hs, ob, cb in top_level_blocks(src, mask, lo, hi):
        head = mask[hs:ob]
        m = rx.search(head)
        if m:
            # make sure this block is the fn body, not e.g. a where-clause block
            hits.append((hs, hs + m.start(), ob, cb))
    if len(hits) > 1:
        # D1b: cargo features are off (pilota's default feature set is empty): a definition guarded by
        # a positive `#[cfg(feature = "..")]` does not exist in the build under verification
        live = [h for h in hits if not re.search(r'#\[cfg\(feature\s*=', mask[h[0]:h[1]])]
        if len(live) == 1:
            hits = live
    if not hits:
        raise Lost('fn %s not found' % name)
    if len(hits) > 1:
        raise Lost('fn %s ambiguous' % name)
    return hits[0]


def find_item(src, mask, lo, hi, kind, name):
    """struct / enum / const / static / type at top level of the range."""
    if kind in ('struct', 'enum', 'trait'):
        rx = re.compile(r'\b%s\s+%s\b' % (kind, re.escape(name)))
        for hs, ob, cb in top_level_blocks(src, mask, lo, hi):
            if rx.search(mask[hs:ob]):
                return hs, cb + 1
        raise Lost('%s %s not found' % (kind, name))
    if kind in ('const', 'static', 'type', 'tstruct'):
        # tstruct: a tuple struct `struct Name(..);` (attributes above it are not copied)
        rx = re.compile(r'(?m)^[ \t]*(pub(\([a-z]+\))?\s+)?%s\s+%s\b' % ('struct' if kind == 'tstruct' else kind, re.escape(name)))
        m = rx.search(mask, lo, hi)
        if not m:
            raise Lost('%s %s not found' % (kind, name))
        # up to the terminating ';' at depth 0
        i = m.start()
        while i < hi:
            c = mask[i]
            if c in '([{':
                i = match_close(src, i) + 1
                continue
            if c == ';':
                return m.start(), i + 1
            i += 1
        raise Lost('%s %s unterminated' % (kind, name))
    raise ValueError(kind)


# --------------------------------------------------------------------------
# rewrites


class Counts(dict):
    def hit(self, k, n=1):
        if n:
            self[k] = self.get(k, 0) + n


def _replace_macro_calls(text, macro, repl_fn):
    """Replace every `macro!( ... )` (balanced) by repl_fn(args_text)."""
    out = []
    i = 0
    mask = code_mask(text)
    rx = re.compile(r'\b' + re.escape(macro) + r'!\s*\(')
    n = 0
    while True:
        m = rx.search(mask, i)
        if not m:
            out.append(text[i:])
            break
        op = m.end() - 1
        cl = match_close(text, op)
        out.append(text[i:m.start()])
        out.append(repl_fn(text[op + 1:cl]))
        i = cl + 1
        n += 1
    return ''.join(out), n


def split_top_commas(args):
    parts, depth, cur = [], 0, []
    mask = code_mask(args)
    for ch_m, ch in zip(mask, args):
        if ch_m in '([{':
            depth += 1
        elif ch_m in ')]}':
            depth -= 1
        if ch_m == ',' and depth == 0:
            parts.append(''.join(cur))
            cur = []
        else:
            cur.append(ch)
    if ''.join(cur).strip():
        parts.append(''.join(cur))
    return parts


ASSERT_REMAINING_SHAPE = re.compile(
    r'macro_rules!\s*assert_remaining\s*\{.*?#\[cfg\(not\(feature\s*=\s*"unstable"\)\)\]\s*'
    r'if\s*!\$cond\s*\{\s*return\s+Err\(IOError::NoRemaining\(format!\(\$\(\$arg\)\+\)\)\)\?;\s*\}'
    r'.*?#\[cfg\(not\(feature\s*=\s*"unstable"\)\)\]\s*'
    r'if\s*!\$cond\s*\{\s*return\s+Err\(IOError::NoRemaining\(String::new\(\)\)\)\?;\s*\}', re.S)


def check_assert_remaining_shape(repo):
    p = os.path.join(repo, 'pilota/src/thrift/rw_ext.rs')
    if not ASSERT_REMAINING_SHAPE.search(open(p).read()):
        raise Lost('assert_remaining! no longer has the shape rule D7 expands')


def rewrite_body(text, counts, opts):
    """Apply D1..D12 to a function's text (attributes + signature + body)."""
    # D1 attributes on the fn and inside
    text, n = re.subn(r'(?m)^[ \t]*#\[(inline(\([a-z]+\))?|cold|doc[^\]]*|allow[^\]]*|must_use)\]\s*\n', '', text)
    counts.hit('D1_attr_removed', n)
    text, n = re.subn(r'(?m)^[ \t]*#\[cfg\(not\(feature\s*=\s*"[^"]*"\)\)\]\s*\n', '', text)
    counts.hit('D1_attr_removed', n)
    # D7 assert_remaining!
    def ar(args):
        parts = split_top_commas(args)
        return 'if !(%s) { return Err(IOError::NoRemaining(fmt_opaque()))?; }' % parts[0].strip()
    text, n = _replace_macro_calls(text, 'assert_remaining', ar)
    # the macro call is a statement `assert_remaining!(..);` -> leaves `...};` fine
    counts.hit('D7_assert_remaining', n)
    # D11 panic!(..) -> vpanic()
    text, n = _replace_macro_calls(text, 'panic', lambda a: 'vpanic()')
    counts.hit('D11_panic', n)
    for mac in ('unreachable', 'todo', 'unimplemented'):
        text, n = _replace_macro_calls(text, mac, lambda a: 'vpanic()')
        counts.hit('D11_panic', n)
    # D12 debug_assert!(c) -> vdebug_assert(c)   (obligation: c holds)
    text, n = _replace_macro_calls(text, 'debug_assert', lambda a: 'vdebug_assert(%s)' % split_top_commas(a)[0].strip())
    counts.hit('D12_debug_assert', n)
    # D2 format!(..) -> fmt_opaque()
    text, n = _replace_macro_calls(text, 'format', lambda a: 'fmt_opaque()')
    counts.hit('D2_format', n)
    # D2b "literal".to_string()  -> fmt_opaque()
    text, n = re.subn(r'"(?:[^"\\]|\\.)*"\s*\.to_string\(\)', 'fmt_opaque()', text)
    counts.hit('D2_format', n)
    # D2c String::new() inside IOError -> fmt_opaque()
    # D3 closure |_| -> |_e|
    text, n = re.subn(r'\|\s*_\s*\|', '|_e|', text)
    counts.hit('D3_closure_underscore', n)
    # D3b parameter pattern `_: T` -> `_p0: T` (Verus wants identifiers as parameters)
    text, n = re.subn(r'([(,]\s*)_(\s*:)', r'\1_p0\2', text)
    counts.hit('D3_closure_underscore', n)
    # D15 module paths: everything lives in one crate root in the generated file
    text, n = re.subn(r'\b(?:super|crate::thrift|crate)::(?=[A-Za-z_])', '', text)
    counts.hit('D15_module_path_flattened', n)
    if opts.get('async'):
        text, n1 = re.subn(r'\basync\s+fn\b', 'fn', text)
        text, n2 = re.subn(r'\s*\.await\b', '', text)
        text, n3 = re.subn(r'(?m)^[ \t]*#\[async_recursion::async_recursion\]\s*\n', '', text)
        counts.hit('D8_async', n1 + n2 + n3)
    return text


def name_return(sig, counts):
    """D6: `-> T` becomes `-> (res: T)`.  sig is the text from `fn` to just before `{`."""
    mask = code_mask(sig)
    # find top-level '->' after the parameter list
    op = mask.find('(')
    cl = match_close(sig, op)
    rest = sig[cl + 1:]
    m = re.match(r'\s*->\s*', rest)
    if not m:
        return sig, None
    after = rest[m.end():]
    # return type ends at top-level `where` or end
    amask = code_mask(after)
    depth = 0
    end = len(after)
    i = 0
    while i < len(after):
        c = amask[i]
        if c in '(<[':
            depth += 1
        elif c in ')>]':
            if c == '>' and i > 0 and amask[i - 1] == '-':
                pass
            else:
                depth -= 1
        elif depth == 0 and re.match(r'\bwhere\b', amask[i:]) and (i == 0 or not amask[i - 1].isalnum()):
            end = i
            break
        i += 1
    rty = after[:end].strip()
    tail = after[end:]
    counts.hit('D6_named_return')
    return sig[:cl + 1] + ' -> (res: ' + rty + ')\n' + (('    ' + tail.strip() + '\n') if tail.strip() else ''), rty


LOOP_RX = re.compile(r'\b(while|loop|for)\b')


def splice_loops(body, loops, counts, body_hints=None, end_hints=None, before_hints=None, loop_kw=None, fname=''):
    """Insert invariant blocks after the n-th loop header (before its `{`); `body_hints` {n: ghost text}
    (from `%hint @loop n`) go at the start of the n-th loop's body, an anchor that does not depend on
    the text of any statement."""
    body_hints = body_hints or {}
    end_hints = end_hints or {}
    before_hints = before_hints or {}
    loop_kw = loop_kw or {}
    if not loops and not body_hints and not end_hints and not before_hints:
        return body
    mask = code_mask(body)
    pos = []
    starts = []
    kws = []
    i = 0
    while True:
        m = LOOP_RX.search(mask, i)
        if not m:
            break
        kw = m.group(1)
        kws.append(kw)
        j = m.end()
        # header extends to the first '{' at paren depth 0 (struct literals in
        # loop headers do not occur in the extracted code)
        k = j
        while k < len(mask):
            c = mask[k]
            if c in '([':
                k = match_close(body, k) + 1
                continue
            if c == '{':
                break
            k += 1
        pos.append(k)
        starts.append(m.start(1))
        i = k + 1
    out = body
    for n in sorted(set(loops) | set(body_hints) | set(end_hints) | set(before_hints), reverse=True):
        if n < 1 or n > len(pos):
            raise Lost('loop #%d not found (function has %d loops)' % (n, len(pos)))
        k = pos[n - 1]
        if os.environ.get('VF_PRINT_LOOPS') and n in loops:
            sys.stderr.write('LOOPKW %s %d %s\n' % (fname, n, kws[n - 1]))
        if n in loop_kw and loop_kw[n] != kws[n - 1]:
            # a loop contract (invariant / invariant_except_break / ensures / decreases) is written for one loop
            # SHAPE; when the loop has been restructured (`loop { .. break }` <-> `while c { .. }` <-> `for`), the
            # old contract says nothing about the new loop: no verdict rather than a failed proof
            raise Lost('loop #%d is now a `%s` loop; its contract was written for a `%s` loop' % (n, kws[n - 1], loop_kw[n]))
        if n in end_hints:
            # `%hint @loop n end`: before the closing brace of the n-th loop's body (loops are not nested here)
            close = match_close(body, k)
            if any(k < q < close for q in pos):
                raise Lost('loop #%d has a nested loop: @loop end anchors are not supported there' % n)
            out = out[:close] + '\n' + end_hints[n] + '\n' + out[close:]
            counts.hit('D6_ghost_hint_spliced')
        if n in body_hints:
            out = out[:k + 1] + '\n' + body_hints[n] + '\n' + out[k + 1:]
            counts.hit('D6_ghost_hint_spliced')
        if n in loops:
            out = out[:k] + '\n' + loops[n] + '\n' + out[k:]
            counts.hit('D6_loop_invariant_spliced')
        if n in before_hints:
            # `%hint @loop n before`: on its own line in front of the loop statement
            ls = out.rfind('\n', 0, starts[n - 1]) + 1
            if out[ls:starts[n - 1]].strip():
                raise Lost('loop #%d does not start a statement: @loop before anchor not supported' % n)
            out = out[:ls] + before_hints[n] + '\n' + out[ls:]
            counts.hit('D6_ghost_hint_spliced')
    return out


CLOSURE_RX = re.compile(r'\|([^|\n]*)\|')


def splice_closures(body, closures, counts):
    """D6c: the n-th closure header `|a, b|` of the function is replaced by an annotated header
    `|a: T, b: U| -> (r: R)` followed by contract lines; the parameter names must be the ones in
    the source (otherwise the anchor is lost)."""
    if not closures:
        return body
    mask = code_mask(body)
    heads = []
    for m in CLOSURE_RX.finditer(mask):
        # a closure header is preceded by '(' ',' '=' or whitespace+move, not by an operand
        j = m.start() - 1
        while j >= 0 and mask[j] in ' \t\n':
            j -= 1
        if j >= 0 and (mask[j].isalnum() or mask[j] in ')]_'):
            continue   # binary `|` operator
        heads.append(m)
    for clo in sorted(closures, key=lambda c: -c[0]):
        n, header, spec = clo[0], clo[1], clo[2]
        optional = len(clo) > 3 and clo[3]
        if n < 1 or n > len(heads):
            if optional:
                continue
            raise Lost('closure #%d not found (function has %d closures)' % (n, len(heads)))
        m = heads[n - 1]
        orig_names = [p.split(':')[0].strip() for p in m.group(1).split(',') if p.strip()]
        hm = re.match(r'\|([^|]*)\|', header)
        new_names = [p.split(':')[0].strip() for p in hm.group(1).split(',') if p.strip()]
        if orig_names != new_names:
            raise Lost('closure #%d parameters %r differ from annotated %r' % (n, orig_names, new_names))
        # the closure body must be a block for Verus: wrap an expression body in braces
        k = m.end()
        while body[k] in ' \t\n':
            k += 1
        if body[k] == '{':
            body = body[:m.start()] + header + '\n' + spec + body[m.end():]
        else:
            # expression body extends to the matching ')' of the enclosing call or a ',' at depth 0
            depth = 0
            e = k
            while e < len(body):
                c = mask[e]
                if c in '([{':
                    e = match_close(body, e) + 1
                    continue
                if c in ')]},' and depth == 0:
                    break
                e += 1
            body = body[:m.start()] + header + '\n' + spec + '{ ' + body[k:e] + ' }' + body[e:]
        counts.hit('D6_closure_contract_spliced')
    return body


def closure_heads(body):
    mask = code_mask(body)
    heads = []
    for m in CLOSURE_RX.finditer(mask):
        j = m.start() - 1
        while j >= 0 and mask[j] in ' \t\n':
            j -= 1
        if j >= 0 and (mask[j].isalnum() or mask[j] in ')]_'):
            continue   # binary `|` operator
        heads.append(m)
    return heads


def convert_closures(body, convs, counts):
    """D26 closure conversion: the n-th closure `|p1, p2, ..| { block }` of the function -- which must capture
    nothing -- is replaced by the expression given in the unit file (a value of a unit-declared struct), and the
    unit's template (an `impl <Trait> for <Struct>` whose method has the closure's parameters `$1 $2 ..` and the
    closure's block `$body`, verbatim) is returned to be emitted after the function."""
    items = []
    for n, repl, templ, *opt in sorted(convs, key=lambda c: -c[0]):
        heads = closure_heads(body)
        if opt and opt[0] and (n < 1 or n > len(heads)):
            continue
        if n < 1 or n > len(heads):
            raise Lost('closure #%d not found (function has %d closures): closure conversion' % (n, len(heads)))
        m = heads[n - 1]
        names = [q.split(':')[0].strip() for q in m.group(1).split(',') if q.strip()]
        k = m.end()
        while body[k] in ' \t\n':
            k += 1
        if body[k] != '{':
            raise Lost('closure #%d has an expression body: closure conversion needs a block' % n)
        close = match_close(body, k)
        block = body[k:close + 1]
        item = templ.replace('$body', block)
        for i, nm in enumerate(names):
            item = item.replace('$%d' % (i + 1), nm)
        if re.search(r'\$\d', item):
            raise Lost('closure #%d has %d parameters, fewer than the conversion template uses' % (n, len(names)))
        body = body[:m.start()] + repl + body[close + 1:]
        items.append((n, item))
        counts.hit('D26_closure_converted')
    return body, items


def splice_hints(body, hints, counts):
    for anchor, ghost in hints:
        # structural anchors: independent of the text of any statement
        if anchor == '@head':
            body = body[:1] + '\n' + ghost + '\n' + body[1:]
            counts.hit('D6_ghost_hint_spliced')
            continue
        if anchor == '@tail':
            # before the function's final (single-line) expression
            close = len(body.rstrip()) - 1
            if body[close] != '}':
                raise Lost('@tail: function body does not end with }')
            e = close
            while e > 0 and body[e - 1] in ' \t\n':
                e -= 1
            ls = body.rfind('\n', 0, e) + 1
            line = code_mask(body)[ls:e]
            if not line.strip() or line.count('(') != line.count(')') or line.count('{') != line.count('}') or line.rstrip().endswith(';'):
                raise Lost('@tail: the function does not end with a single-line tail expression')
            body = body[:ls] + ghost + '\n' + body[ls:]
            counts.hit('D6_ghost_hint_spliced')
            continue
        if anchor.startswith('@arm '):
            # end of the block of the match arm `<pattern> => { ... }`
            pat = anchor[len('@arm '):].strip()
            mask = code_mask(body)
            m = re.search(r'(?<![\w:])' + re.escape(pat) + r'\s*=>\s*\{', mask)
            if not m:
                raise Lost('hint anchor: match arm %r with a block body not found' % pat)
            close = match_close(body, m.end() - 1)
            e = close
            while e > 0 and body[e - 1] in ' \t\n':
                e -= 1
            if body[e - 1] not in ';}{':
                raise Lost('hint anchor: match arm %r ends with a value expression' % pat)
            body = body[:close] + ghost + '\n' + body[close:]
            counts.hit('D6_ghost_hint_spliced')
            continue
        after = anchor.startswith('after:')
        if after:
            anchor = anchor[len('after:'):].strip()
        idx = body.find(anchor)
        if idx < 0:
            raise Lost('hint anchor %r not found' % anchor)
        if after:
            # `%hint after: <statement>`: the ghost text follows the line that holds the anchor
            le = body.find('\n', idx)
            le = len(body) if le < 0 else le + 1
            body = body[:le] + ghost + '\n' + body[le:]
        else:
            ls = body.rfind('\n', 0, idx) + 1
            body = body[:ls] + ghost + '\n' + body[ls:]
        counts.hit('D6_ghost_hint_spliced')
    return body


# --------------------------------------------------------------------------
# unit assembly


class FnSpec:
    def __init__(self, name):
        self.name = name
        self.newname = None
        self.clauses = []
        self.loops = {}
        self.loop_kw = {}
        self.cloconv = []
        self.hints = []
        self.closures = []
        self.opts = {}
        self.vu_line = 0


class Assembled:
    def __init__(self):
        self.lines = []          # output lines
        self.fn_ranges = []      # (first_line, last_line, qualified name, kind)
        self.clause_lines = {}   # out line no -> (qualified fn, clause text)
        self.functions = []      # dict(name, file, sha256, container)
        self.counts = Counts()
        self.n_clauses = 0
        self.verus_args = []

    def emit(self, text):
        # contract shorthands: @new = (*final(self)), @old = (*old(self))
        text = text.replace('@new', '(*final(self))').replace('@old', '(*old(self))')
        for l in text.split('\n'):
            self.lines.append(l)

    def lineno(self):
        return len(self.lines) + 1


def parse_opts(words):
    opts = {}
    for w in words:
        if w == 'async':
            opts['async'] = True
        elif w == 'pub':
            opts['pub'] = True
        elif w.startswith('derive='):
            opts['derive'] = w[7:]
        elif w == 'external_body':
            opts['external_body'] = True
        elif w == 'no_name_return':
            opts['no_name_return'] = True
        elif w.startswith('use='):
            opts['use'] = w[4:]
        elif w.startswith('exec_const='):
            opts['exec_const'] = w[len('exec_const='):]
        else:
            raise ValueError('unknown option ' + w)
    return opts


def assemble(unit_path, repo, vf_dir):
    A = Assembled()
    src = mask = None
    cur_file = None
    stack = []   # list of (Container, emitted?)
    def load(path, seen=()):
        out = []
        for l in open(path).read().split('\n'):
            if l.strip().startswith('%use '):
                sub = os.path.join(os.path.dirname(path), l.split()[1])
                out.extend(load(sub))
            else:
                out.append(l)
        return out
    lines = load(unit_path)
    # %set NAME value  : textual parameters ($NAME) so that one body description serves
    # binary.rs and binary_le.rs
    params = {}
    out_lines = []
    for l in lines:
        if l.strip().startswith('%set '):
            _, k, v = l.strip().split(None, 2)
            params[k] = v
            continue
        for k, v in params.items():
            l = l.replace('$' + k, v)
        out_lines.append(l)
    lines = out_lines
    i = 0
    check_assert_remaining_shape(repo)

    def cur_range():
        if stack:
            return stack[-1].body_range()
        return 0, len(src)

    def qual(name):
        hdr = stack[-1].header if stack else ''
        return (os.path.basename(cur_file or '?') + '::' + re.sub(r'\s+', ' ', hdr)[:60] + '::' + name)

    unit_subst = []
    silent = []
    defs = {}
    expansions = {}
    emitted_items = set()
    while i < len(lines):
        ln = lines[i]
        s = ln.strip()
        if not s or s.startswith('#'):
            i += 1
            continue
        if s.startswith('%file'):
            cur_file = s.split()[1]
            src = open(os.path.join(repo, cur_file)).read()
            mask = code_mask(src)
            stack = []
            i += 1
        elif s == '%raw':
            i += 1
            while lines[i].strip() != '%endraw':
                A.emit(lines[i])
                i += 1
            i += 1
        elif s.startswith('%include'):
            A.emit(open(os.path.join(vf_dir, s.split()[1])).read())
            i += 1
        elif s.startswith('%verus_arg'):
            A.verus_args.extend(s.split()[1:])
            i += 1
        elif s.startswith('%def'):
            name = s.split()[1]
            i += 1
            buf = []
            while i < len(lines) and (not lines[i].strip() or lines[i][0].isspace()):
                buf.append(lines[i])
                i += 1
            defs[name] = buf
        elif s.startswith('%frag'):
            # %frag <fn> /<regex ending at the opening brace>/ : a *fragment* of a function -- the
            # balanced block that starts where <regex> matches (typically `match <scrutinee> {`) -- is
            # emitted verbatim (after the usual rewrites).  Fragment-level contracts are labelled as
            # such in evidence: the code around the fragment is not verified.
            # %frag <fn> /<start regex>/ .. /<end regex>/ : the statements from where <start> matches up to
            # (not including) where <end> matches -- a balanced run of statements, in source order.
            mm = re.match(r'%frag\s+(\w+)\s+/(.*?)/\s*(?:\.\.\s*/(.*)/)?\s*$', s)
            fname, frx, erx = mm.group(1), mm.group(2), mm.group(3)
            lo, hi = cur_range()
            hs, sig_start, ob, cb = find_fn(src, mask, lo, hi, fname)
            m2 = re.search(frx, mask[ob:cb])
            if not m2:
                raise Lost('fragment /%s/ not found in fn %s' % (frx, fname))
            if erx:
                m3e = re.search(erx, mask[ob + m2.end():cb])
                if not m3e:
                    raise Lost('fragment end /%s/ not found after /%s/ in fn %s' % (erx, frx, fname))
                ftext = src[ob + m2.start():ob + m2.end() + m3e.start()]
                fm = code_mask(ftext)
                if fm.count('{') != fm.count('}') or fm.count('(') != fm.count(')'):
                    raise Lost('fragment /%s/../%s/ of fn %s is not a balanced run of statements' % (frx, erx, fname))
                frx = frx + '/../' + erx
            else:
                bo = ob + m2.end() - 1
                if src[bo] != '{':
                    raise Lost('fragment regex must end at an opening brace')
                bc = match_close(src, bo)
                ftext = src[ob + m2.start():bc + 1]
            sha = hashlib.sha256(ftext.encode()).hexdigest()
            i += 1
            fsub = []
            while i < len(lines) and lines[i].strip().startswith('%fsubst'):
                m3 = re.match(r'%fsubst\s+/(.*)/\s*=>\s*(.*)$', lines[i].strip())
                fsub.append((m3.group(1), m3.group(2)))
                i += 1
            ftext = rewrite_body(ftext, A.counts, {})
            for pat, rep in fsub + unit_subst:
                ftext, n = re.subn(pat, rep, ftext)
                A.counts.hit('Dx_fn_subst', n)
            first = A.lineno()
            A.emit(ftext)
            A.fn_ranges.append((first, A.lineno() - 1, qual('fragment of ' + fname)))
            A.functions.append(dict(name=qual('FRAGMENT of ' + fname + ' /' + frx + '/'), file=cur_file, sha256=sha,
                                    container=stack[-1].header if stack else ''))
            A.counts.hit('D19_fragment_extracted')
        elif s.startswith('%expand'):
            # D7b: a macro_rules! macro defined in the current %file, with a single arm whose
            # parameters are `$x:expr...`, is expanded textually from its definition (re-read now)
            mname = s.split()[1]
            mm = re.search(r'macro_rules!\s*' + re.escape(mname) + r'\s*\{', mask)
            if not mm:
                raise Lost('macro ' + mname + ' not found')
            ob = mm.end() - 1
            cb = match_close(src, ob)
            arm = src[ob + 1:cb]
            pm = re.match(r'\s*\(([^)]*)\)\s*=>\s*\{', arm)
            if not pm:
                raise Lost('macro %s: unsupported shape' % mname)
            params = re.findall(r'\$(\w+)\s*:\s*\w+', pm.group(1))
            bo = arm.index('{', pm.end() - 1)
            bc = match_close(arm, bo)
            if arm[bc + 1:].strip().strip(';').strip():
                raise Lost('macro %s: more than one arm' % mname)
            expansions[mname] = (params, arm[bo + 1:bc])
            i += 1
        elif s.startswith('%subst'):
            # %subst /regex/ => replacement   (unit-wide textual substitution, reported as Dx)
            m = re.match(r'%subst\s+/(.*)/\s*=>\s*(.*)$', s)
            unit_subst.append((m.group(1), m.group(2)))
            i += 1
        elif s.startswith('%allconsts'):
            # every top-level `const NAME: <integer type> = <expr>;` of the current %file that has not been emitted
            # yet (a change that introduces a new constant must not lose the extraction of the functions using it)
            lo, hi = cur_range()
            for cm in re.finditer(r'(?m)^(?:pub(?:\([a-z]+\))?\s+)?const\s+([A-Z][A-Z0-9_]*)\s*:\s*(u8|u16|u32|u64|usize|i8|i16|i32|i64)\s*=\s*([^;{}]*);', mask[lo:hi]):
                nm = cm.group(1)
                if nm in emitted_items or not re.match(r'^[0-9xXa-fA-F_\s*+\-()<>|&]+$', cm.group(3).strip()):
                    continue   # only constants whose value is a literal expression (enum casts etc. need an explicit %item)
                a0 = lo + cm.start()
                text = re.sub(r'pub\(crate\)', 'pub', src[a0:lo + cm.end()])
                emitted_items.add(nm)
                A.emit(text)
                A.counts.hit('D9_items_extracted')
                A.functions.append(dict(name='const ' + nm, file=cur_file, sha256=hashlib.sha256(text.encode()).hexdigest(), container=''))
            i += 1
        elif s.startswith('%item'):
            w = s.split()
            kind, name = w[1], w[2]
            opts = parse_opts(w[3:])
            emitted_items.add(name)
            lo, hi = cur_range()
            a, b = find_item(src, mask, lo, hi, kind, name)
            text = src[a:b]
            # D9: drop doc comments and derives except Clone, Copy
            text = re.sub(r'(?m)^[ \t]*///.*\n', '', text)
            text = re.sub(r'(?m)^[ \t]*//.*\n', '', text)
            keep = opts.get('derive', '')
            def fix_derive(m):
                ds = [d.strip() for d in m.group(1).split(',')]
                ks = [d for d in ds if (d in ('Clone', 'Copy') and keep != 'none') or d in keep.split(',')]
                A.counts.hit('D9_derives_dropped', len(ds) - len(ks))
                if 'PartialEq' in ks and 'Eq' in ks:
                    ks.append('Structural')   # D9b: Verus' marker that the derived == is structural equality
                return ('#[derive(%s)]\n' % ', '.join(ks)) if ks else ''
            text = re.sub(r'#\[derive\(([^)]*)\)\]\s*\n', fix_derive, text)
            text = re.sub(r'(?m)^[ \t]*#\[(non_exhaustive|cfg_attr[^\]]*|cfg\(not\(feature[^\]]*)\]\s*\n', '', text)
            text = re.sub(r'pub\(crate\)', 'pub', text)
            if kind == 'const' and opts.get('exec_const'):
                # D14b: `const N: T = E;` -> `exec const N: T ensures N == <value from the .vu> { E }`
                # (E stays the real expression; the value is what the protocol document prescribes)
                mm = re.match(r'(?s)\s*(?:pub\s+)?const\s+(\w+)\s*:\s*([^=]+?)\s*=\s*(.*);\s*$', text)
                if not mm:
                    raise Lost('const %s: unsupported shape' % name)
                text = 'pub exec const %s: %s ensures %s == %s { %s }' % (mm.group(1), mm.group(2), mm.group(1), opts['exec_const'], mm.group(3))
                A.counts.hit('D14_static_to_const')
            if kind == 'static':
                # D14: a `static` of plain data becomes a `const` (same value; Verus needs an
                # ensures-annotated `exec static` otherwise)
                text = re.sub(r'\bstatic\b', 'const', text, count=1)
                A.counts.hit('D14_static_to_const')
            if kind == 'tstruct':
                text = re.sub(r'\((\s*)(pub\s+)?', r'(\1pub ', text, count=1)
                ks = [d for d in opts.get('derive', '').split(',') if d and d != 'none']
                if 'PartialEq' in ks and 'Eq' in ks:
                    ks.append('Structural')
                if ks:
                    text = '#[derive(%s)]\n' % ', '.join(ks) + text
            if kind == 'struct':
                # D9: all fields public (visibility only; Verus treats a struct with any private
                # field as opaque in specifications)
                def pubfield(m):
                    return m.group(1) + 'pub ' + m.group(3)
                text = re.sub(r'(?m)^(\s+)(pub\s+)?([a-z_][a-z0-9_]*\s*:)', pubfield, text)
            A.counts.hit('D9_items_extracted')
            first = A.lineno()
            A.emit(text)
            A.functions.append(dict(name=kind + ' ' + name, file=cur_file,
                                    sha256=hashlib.sha256(src[a:b].encode()).hexdigest(), container=''))
            i += 1
        elif s.startswith('%in') or s.startswith('%scope'):
            # %scope = %in without emitting the container header (lookup scope for %frag)
            is_scope = s.startswith('%scope')
            if is_scope:
                s = '%in' + s[len('%scope'):]
            having = None
            hm = re.search(r'\s+having=(\w+)\s*$', s)
            if hm:
                having = hm.group(1)
                s = s[:hm.start()]
            m = re.match(r'%in\s+/(.*?)/\s*(=>\s*(.*))?$', s)
            if not m:
                raise ValueError('bad %in line: ' + s)
            lo, hi = cur_range()
            c = find_container(src, mask, lo, hi, m.group(1), having)
            newh = m.group(3)
            silent.append(is_scope)
            if is_scope:
                pass
            elif newh:
                A.counts.hit('D4_trait_impl_to_inherent')
                A.emit(newh.strip() + ' {')
            else:
                A.emit(c.header + ' {')
            stack.append(c)
            i += 1
        elif s == '%out' or s == '%endscope':
            stack.pop()
            if not silent.pop():
                A.emit('}')
            i += 1
        elif s.startswith('%fn'):
            w = s.split()
            f = FnSpec(w[1])
            rest = w[2:]
            if rest and rest[0] == 'as':
                f.newname = rest[1]
                rest = rest[2:]
            f.opts = parse_opts(rest)
            f.vu_line = i + 1
            i += 1
            mode = 'clauses'
            cur_loop = None
            cur_hint = None
            while i < len(lines):
                l2 = lines[i]
                st = l2.strip()
                if st.startswith('%loop'):
                    cur_loop = int(st.split()[1])
                    f.loops[cur_loop] = ''
                    if len(st.split()) > 2:
                        f.loop_kw[cur_loop] = st.split()[2]
                    mode = 'loop'
                    i += 1
                    continue
                if st.startswith('%hint'):
                    cur_hint = [st[len('%hint'):].strip(), '']
                    f.hints.append(cur_hint)
                    mode = 'hint'
                    i += 1
                    continue
                if st.startswith('%cloconv'):
                    # %cloconv <n> <replacement expression>   + following indented template lines (D26)
                    # `%cloconv?`: optional -- applied only if the function has such a closure (a function that has none
                    # today but could be rewritten onto merge_loop directly: seed C10-15)
                    mm = re.match(r'%cloconv(\??)\s+(\d+)\s+(.*)$', st)
                    cur_cc = [int(mm.group(2)), mm.group(3).strip(), '', mm.group(1) == '?']
                    f.cloconv.append(cur_cc)
                    mode = 'cloconv'
                    i += 1
                    continue
                if st.startswith('%closure'):
                    # %closure <n> <annotated header>   + following indented ensures lines
                    # `%closure? n ..`: the annotation is dropped when the function has no n-th closure (the closure was
                    # written away); `%closure n ..` without `?` then loses the extraction
                    mm = re.match(r'%closure(\?)?\s+(\d+)\s+(.*)$', st)
                    cur_clo = [int(mm.group(2)), mm.group(3).strip(), '', bool(mm.group(1))]
                    f.closures.append(cur_clo)
                    mode = 'closure'
                    i += 1
                    continue
                if st.startswith('%fsubst'):
                    # `%fsubst? /rx/ => rep`: a rule that may not apply (several ways the source can spell one
                    # construct); `%fsubst` without `?` must apply at least once or the extraction is LOST
                    mm = re.match(r'%fsubst(\?)?\s+/(.*)/\s*=>\s*(.*)$', st)
                    f.opts.setdefault('subst', []).append((mm.group(2), mm.group(3), bool(mm.group(1))))
                    i += 1
                    continue
                if st.startswith('%') or (st and not l2[0].isspace()):
                    break
                if mode == 'clauses':
                    f.clauses.append(l2)
                elif mode == 'closure':
                    cur_clo[2] += l2 + '\n'
                elif mode == 'cloconv':
                    cur_cc[2] += l2 + '\n'
                elif mode == 'loop':
                    f.loops[cur_loop] += l2 + '\n'
                else:
                    cur_hint[1] += l2 + '\n'
                i += 1
            f.hints = [(a, b) for a, b in f.hints]
            if f.opts.get('use'):
                if f.opts['use'] not in defs:
                    raise ValueError('unknown %def ' + f.opts['use'])
                tmpl = list(defs[f.opts['use']])
                if any(re.match(r'\s*ensures\b', c) for c in f.clauses):
                    tmpl = [re.sub(r'^(\s*)ensures\b', r'\1       ', c) for c in tmpl]
                f.clauses = f.clauses + tmpl
            lo, hi = cur_range()
            hs, sig_start, ob, cb = find_fn(src, mask, lo, hi, f.name)
            raw = src[hs:cb + 1]
            sha = hashlib.sha256(raw.encode()).hexdigest()
            # visibility / qualifiers precede `fn`
            pre = src[hs:sig_start]
            pre = re.sub(r'(?s)//[^\n]*\n', '\n', pre)
            quals = ' '.join(re.findall(r'\b(pub(?:\([a-z]+\))?|unsafe|const|async)\b', code_mask(pre)))
            quals = quals.replace('pub(crate)', 'pub').replace('pub(super)', 'pub')
            sig = src[sig_start:ob]
            body = src[ob:cb + 1]
            opts = dict(f.opts)
            opts['subst'] = list(f.opts.get('subst', []))
            text_sig = rewrite_body(sig, A.counts, {k: v for k, v in opts.items() if k == 'async'})
            if opts.get('async'):
                quals = quals.replace('async', '').strip()
            if f.newname:
                text_sig = re.sub(r'\bfn\s+' + re.escape(f.name) + r'\b', 'fn ' + f.newname, text_sig, count=1)
            if not opts.get('no_name_return'):
                text_sig, rty = name_return(text_sig, A.counts)
            # D6b: a parameter spelled `_x` (unused in the body) while the contract text names it `x`: the leading
            # underscore is dropped in the signature and the body, so that marking a parameter unused does not lose the contract
            ctext = '\n'.join(f.clauses)
            for pm in re.finditer(r'[(,]\s*(?:mut\s+)?_([a-z]\w*)\s*:', text_sig):
                nm = pm.group(1)
                if re.search(r'\b' + re.escape(nm) + r'\b', ctext) and not re.search(r'(?<![\w.])' + re.escape(nm) + r'\b', text_sig.replace('_' + nm, '')):
                    text_sig = re.sub(r'\b_' + re.escape(nm) + r'\b', nm, text_sig)
                    body = re.sub(r'\b_' + re.escape(nm) + r'\b', nm, body)
                    A.counts.hit('D6b_underscore_param_renamed')
            # elided `'_`/no lifetime stays; D5 handled by the %in replacement header
            for mname, (mparams, mbody) in expansions.items():
                def expand(args, mparams=mparams, mbody=mbody):
                    parts = [x.strip() for x in split_top_commas(args)]
                    if len(parts) != len(mparams):
                        raise Lost('macro %s: arity mismatch' % mname)
                    out = mbody
                    for pn, av in sorted(zip(mparams, parts), key=lambda t: -len(t[0])):
                        out = out.replace('$' + pn, '(' + av + ')' if not re.match(r'^[\w.]+$', av) else av)
                    return '{' + out + '}'
                body, n = _replace_macro_calls(body, mname, expand)
                A.counts.hit('D7b_local_macro_expanded', n)
            body = rewrite_body(body, A.counts, opts)
            for sub in opts.get('subst', []):
                pat, rep, optional = (sub + (False,))[:3]
                body, n1 = re.subn(pat, rep, body)
                text_sig, n2 = re.subn(pat, rep, text_sig)
                if n1 + n2 == 0 and not optional:
                    raise Lost('substitution /%s/ did not apply in fn %s' % (pat, f.name))
                A.counts.hit('Dx_fn_subst', n1 + n2)
            for pat, rep in unit_subst:
                body, n = re.subn(pat, rep, body)
                A.counts.hit('Dx_unit_subst', n)
                text_sig, n = re.subn(pat, rep, text_sig)
                A.counts.hit('Dx_unit_subst', n)
            loop_hints, loop_end_hints, loop_before_hints = {}, {}, {}
            for a, b in f.hints:
                ml = re.match(r'@loop\s+(\d+)(\s+end|\s+before)?$', a)
                if ml:
                    tgt = {'end': loop_end_hints, 'before': loop_before_hints}.get((ml.group(2) or '').strip(), loop_hints)
                    tgt[int(ml.group(1))] = tgt.get(int(ml.group(1)), '') + b
            f.hints = [(a, b) for a, b in f.hints if not re.match(r'@loop\s+\d+(\s+end|\s+before)?$', a)]
            body = splice_loops(body, f.loops, A.counts, loop_hints, loop_end_hints, loop_before_hints, f.loop_kw, f.name)
            body = splice_closures(body, f.closures, A.counts)
            body, clo_items = convert_closures(body, f.cloconv, A.counts)
            body = splice_hints(body, f.hints, A.counts)
            qn = qual(f.newname or f.name)
            first = A.lineno()
            if opts.get('external_body'):
                A.emit('#[verifier::external_body]')
            A.emit((quals + ' ' if quals else '') + text_sig.rstrip())
            for cl in f.clauses:
                if cl.strip():
                    A.clause_lines[A.lineno()] = (qn, cl.strip())
                    if re.match(r'\s*(ensures|requires|decreases|recommends)\b', cl) or cl.strip().endswith(','):
                        pass
                A.emit(cl)
            A.n_clauses += sum(1 for cl in f.clauses if cl.strip() and not cl.strip().startswith('//'))
            A.emit(body)
            last = A.lineno() - 1
            A.fn_ranges.append((first, last, qn))
            A.functions.append(dict(name=qn, file=cur_file, sha256=sha, container=stack[-1].header if stack else ''))
            A.counts.hit('fn_extracted')
            for cn, item in clo_items:
                c_first = A.lineno()
                A.emit(item)
                A.fn_ranges.append((c_first, A.lineno() - 1, qn + '::{closure#%d}' % cn))
        else:
            raise ValueError('%s:%d: cannot parse %r' % (unit_path, i + 1, ln))
    return A


if __name__ == '__main__':
    unit, repo, out = sys.argv[1:4]
    vf = os.path.dirname(os.path.abspath(__file__))
    try:
        A = assemble(unit, repo, vf)
    except Lost as e:
        print('LOST', e)
        sys.exit(2)
    open(out, 'w').write('\n'.join(A.lines) + '\n')
    print('functions', len([f for f in A.functions]), 'clauses', A.n_clauses, dict(A.counts))
