#!/bin/bash
# usage: runverus.sh <file.rs> [extra verus args]
D=/verif/.build/vfdeps/debug/deps
f=$1; shift
exec verus "$f" --extern bytes=$(ls $D/libbytes-*.rlib | head -1) --extern linkedbytes=$(ls $D/liblinkedbytes-*.rlib | head -1) \
  --extern faststr=$(ls $D/libfaststr-*.rlib | head -1) --extern integer_encoding=$(ls $D/libinteger_encoding-*.rlib | head -1) \
  -L dependency=$D "$@"
