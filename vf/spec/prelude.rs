// ---------------------------------------------------------------------------------------------
// prelude.rs -- shared by every Verus unit.  Nothing in this file is copied from /repo.
//   * assumed contracts of dependency crates (trusted base A2, A4, A5; each is listed in evidence)
//   * opaque error types (rule D10) and the stubs the rewrites D2/D11/D12 introduce
//   * byte-level spec functions written from the protocol documents
// ---------------------------------------------------------------------------------------------
#![verifier::allow(autoderive_clone_without_spec)]
#![feature(allocator_api)]
#![allow(unused_imports, dead_code, unused_variables, unused_mut, non_snake_case, unused_parens, unused_braces)]
use vstd::prelude::*;
use vstd::std_specs::convert::{IntoSpec, FromSpec, TryFromSpec, TryIntoSpec};
use bytes::{Buf, BufMut, Bytes, BytesMut};
use faststr::FastStr;
use linkedbytes::LinkedBytes;
use integer_encoding::VarInt;
use std::convert::TryFrom;
use std::convert::TryInto;
use std::mem;

pub mod ext {
use vstd::prelude::*;
use vstd::std_specs::convert::{IntoSpec, FromSpec, TryFromSpec, TryIntoSpec};
use bytes::{Buf, BufMut, Bytes, BytesMut};
use faststr::FastStr;
use linkedbytes::LinkedBytes;
use integer_encoding::VarInt;
use std::convert::TryFrom;
use std::convert::TryInto;
use std::mem;
use super::bytespec::*;
verus! {

global size_of usize == 8;   // x86_64 / aarch64: the targets pilota is built for

// ------------------------------------------------------------------ external types (A2, A4)
#[verifier::external_type_specification]
#[verifier::external_body]
pub struct ExBytesMut(BytesMut);

#[verifier::external_type_specification]
#[verifier::external_body]
pub struct ExBytes(Bytes);

#[verifier::external_type_specification]
#[verifier::external_body]
pub struct ExLinkedBytes(LinkedBytes);

#[verifier::external_type_specification]
#[verifier::external_body]
pub struct ExFastStr(FastStr);

/// Abstract byte content of a buffer.
pub trait BView { spec fn bview(&self) -> Seq<u8>; }
impl BView for BytesMut { uninterp spec fn bview(&self) -> Seq<u8>; }
impl BView for FastStr { uninterp spec fn bview(&self) -> Seq<u8>; }
/// LinkedBytes = finished nodes ++ current BytesMut
pub uninterp spec fn lb_done(l: &LinkedBytes) -> Seq<u8>;
pub uninterp spec fn lb_cur(l: &LinkedBytes) -> Seq<u8>;
impl BView for LinkedBytes { open spec fn bview(&self) -> Seq<u8> { lb_done(self) + lb_cur(self) } }

// ------------------------------------------------------------------ bytes::BufMut for BytesMut (A2)
pub assume_specification[ <BytesMut as BufMut>::put_slice ](s: &mut BytesMut, src: &[u8])
    ensures final(s).bview() == old(s).bview() + src@;

// ------------------------------------------------------------------ bytes::Buf (A2)
#[verifier::external_trait_specification]
#[verifier::external_trait_extension(BufSpec via BufSpecImpl)]
pub trait ExBuf {
    type ExternalTraitSpecificationFor: Buf;
    /// the bytes not yet consumed
    spec fn rem(&self) -> Seq<u8>;
    fn remaining(&self) -> (r: usize)
        ensures r == self.rem().len();
    fn chunk(&self) -> (r: &[u8])
        ensures r@.len() <= self.rem().len(),
                r@ == self.rem().subrange(0, r@.len() as int),
                self.rem().len() > 0 ==> r@.len() > 0;
    /// documented panic: `cnt > self.remaining()`
    fn advance(&mut self, cnt: usize)
        requires cnt <= old(self).rem().len()
        ensures final(self).rem() == old(self).rem().skip(cnt as int);
    /// documented panic: `self.remaining() < dst.len()`
    fn copy_to_slice(&mut self, dst: &mut [u8])
        requires old(dst)@.len() <= old(self).rem().len()
        ensures final(dst)@ == old(self).rem().take(old(dst)@.len() as int),
                final(dst)@.len() == old(dst)@.len(),
                final(self).rem() == old(self).rem().skip(old(dst)@.len() as int);
    fn has_remaining(&self) -> (r: bool)
        ensures r == (self.rem().len() > 0);
    /// documented panic: no byte remaining
    fn get_u8(&mut self) -> (r: u8)
        requires old(self).rem().len() >= 1
        ensures r == old(self).rem()[0], final(self).rem() == old(self).rem().skip(1);    // the fixed-width getters of Buf panic (documented) when fewer bytes remain than the width of the type
    fn get_u16(&mut self) -> (r: u16)
        requires old(self).rem().len() >= 2
        ensures old(self).rem().take(2) == be16(r as nat), final(self).rem() == old(self).rem().skip(2);
    fn get_u16_le(&mut self) -> (r: u16)
        requires old(self).rem().len() >= 2
        ensures old(self).rem().take(2) == le16(r as nat), final(self).rem() == old(self).rem().skip(2);
    fn get_i16(&mut self) -> (r: i16)
        requires old(self).rem().len() >= 2
        ensures old(self).rem().take(2) == be16(tc(r as int, 16)), final(self).rem() == old(self).rem().skip(2);
    fn get_i16_le(&mut self) -> (r: i16)
        requires old(self).rem().len() >= 2
        ensures old(self).rem().take(2) == le16(tc(r as int, 16)), final(self).rem() == old(self).rem().skip(2);
    fn get_u32(&mut self) -> (r: u32)
        requires old(self).rem().len() >= 4
        ensures old(self).rem().take(4) == be32(r as nat), final(self).rem() == old(self).rem().skip(4);
    fn get_u32_le(&mut self) -> (r: u32)
        requires old(self).rem().len() >= 4
        ensures old(self).rem().take(4) == le32(r as nat), final(self).rem() == old(self).rem().skip(4);
    fn get_i32(&mut self) -> (r: i32)
        requires old(self).rem().len() >= 4
        ensures old(self).rem().take(4) == be32(tc(r as int, 32)), final(self).rem() == old(self).rem().skip(4);
    fn get_i32_le(&mut self) -> (r: i32)
        requires old(self).rem().len() >= 4
        ensures old(self).rem().take(4) == le32(tc(r as int, 32)), final(self).rem() == old(self).rem().skip(4);
    fn get_u64(&mut self) -> (r: u64)
        requires old(self).rem().len() >= 8
        ensures old(self).rem().take(8) == be64(r as nat), final(self).rem() == old(self).rem().skip(8);
    fn get_u64_le(&mut self) -> (r: u64)
        requires old(self).rem().len() >= 8
        ensures old(self).rem().take(8) == le64(r as nat), final(self).rem() == old(self).rem().skip(8);
    fn get_i64(&mut self) -> (r: i64)
        requires old(self).rem().len() >= 8
        ensures old(self).rem().take(8) == be64(tc(r as int, 64)), final(self).rem() == old(self).rem().skip(8);
    fn get_i64_le(&mut self) -> (r: i64)
        requires old(self).rem().len() >= 8
        ensures old(self).rem().take(8) == le64(tc(r as int, 64)), final(self).rem() == old(self).rem().skip(8);
    fn get_f32(&mut self) -> (r: f32)
        requires old(self).rem().len() >= 4
        ensures old(self).rem().take(4) == be32(f32_bits(r) as nat), final(self).rem() == old(self).rem().skip(4);
    fn get_f32_le(&mut self) -> (r: f32)
        requires old(self).rem().len() >= 4
        ensures old(self).rem().take(4) == le32(f32_bits(r) as nat), final(self).rem() == old(self).rem().skip(4);
    fn get_f64(&mut self) -> (r: f64)
        requires old(self).rem().len() >= 8
        ensures old(self).rem().take(8) == be64(f64_bits(r) as nat), final(self).rem() == old(self).rem().skip(8);
    fn get_f64_le(&mut self) -> (r: f64)
        requires old(self).rem().len() >= 8
        ensures old(self).rem().take(8) == le64(f64_bits(r) as nat), final(self).rem() == old(self).rem().skip(8);
}

// `self.remaining()` with `self: &mut B` resolves to the blanket `impl<T: Buf> Buf for &mut T`
// of the bytes crate; these forward to T (A2).  Verus does not allow `requires` here: the
// precondition of `advance`/`copy_to_slice` is inherited from the trait specification above.
pub open spec fn rem2<T: Buf + ?Sized>(s: &&mut T) -> Seq<u8> { (**s).rem() }
pub assume_specification<'b, T: Buf + ?Sized>[ <&'b mut T as Buf>::remaining ](s: &&'b mut T) -> (r: usize)
    ensures r == rem2(s).len();
pub assume_specification<'b, 'c, T: Buf + ?Sized>[ <&'b mut T as Buf>::chunk ](s: &'c &'b mut T) -> (r: &'c [u8])
    ensures r@.len() <= rem2(s).len(), r@ == rem2(s).subrange(0, r@.len() as int),
            rem2(s).len() > 0 ==> r@.len() > 0;
pub assume_specification<'b, T: Buf + ?Sized>[ <&'b mut T as Buf>::advance ](s: &mut &'b mut T, cnt: usize)
    ensures (**final(s)).rem() == (**old(s)).rem().skip(cnt as int);
pub assume_specification<'b, T: Buf + ?Sized>[ <&'b mut T as Buf>::copy_to_slice ](s: &mut &'b mut T, dst: &mut [u8])
    ensures final(dst)@ == (**old(s)).rem().take(old(dst)@.len() as int),
            final(dst)@.len() == old(dst)@.len(),
            (**final(s)).rem() == (**old(s)).rem().skip(old(dst)@.len() as int);

// ------------------------------------------------------------------ Bytes (A2)
pub assume_specification[ Bytes::len ](s: &Bytes) -> (r: usize)
    ensures r == s.rem().len(), r <= isize::MAX;   // Rust allocations never exceed isize::MAX bytes
/// documented panic: `at > len`
pub assume_specification[ Bytes::split_to ](s: &mut Bytes, at: usize) -> (r: Bytes)
    requires at <= (*old(s)).rem().len()
    ensures r.rem() == (*old(s)).rem().take(at as int), (*final(s)).rem() == (*old(s)).rem().skip(at as int);
pub assume_specification[ <Bytes as Clone>::clone ](s: &Bytes) -> (r: Bytes)
    ensures r.rem() == s.rem();
pub assume_specification[ <Bytes as std::ops::Deref>::deref ](s: &Bytes) -> (r: &[u8])
    ensures r@ == s.rem();

pub uninterp spec fn string_bytes(s: &String) -> Seq<u8>;
// ------------------------------------------------------------------ FastStr (A4)
pub assume_specification[ FastStr::len ](s: &FastStr) -> (r: usize)
    ensures r == s.bview().len();
pub assume_specification[ <FastStr as Clone>::clone ](s: &FastStr) -> (r: FastStr)
    ensures r.bview() == s.bview();
pub assume_specification[ <FastStr as AsRef<[u8]>>::as_ref ](s: &FastStr) -> (r: &[u8])
    ensures r@ == s.bview();
pub assume_specification[ FastStr::from_bytes_unchecked ](b: Bytes) -> (r: FastStr)
    ensures r.bview() == b.rem();

pub assume_specification[ FastStr::from_string ](s: String) -> (r: FastStr)
    ensures r.bview() == string_bytes(&s);
pub assume_specification[ <Bytes as From<Vec<u8>>>::from ](v: Vec<u8>) -> (r: Bytes)
    ensures r.rem() == v@;

// ------------------------------------------------------------------ LinkedBytes (A4)
pub assume_specification[ LinkedBytes::bytes_mut ](s: &mut LinkedBytes) -> (r: &mut BytesMut)
    ensures (*r).bview() == lb_cur(old(s)),
            lb_done(final(s)) == lb_done(old(s)),
            lb_cur(final(s)) == (*final(r)).bview();
pub assume_specification[ LinkedBytes::insert ](s: &mut LinkedBytes, b: Bytes)
    ensures lb_done(final(s)) == lb_done(old(s)) + lb_cur(old(s)) + b.rem(),
            lb_cur(final(s)) == Seq::<u8>::empty();
pub assume_specification[ LinkedBytes::insert_faststr ](s: &mut LinkedBytes, b: FastStr)
    ensures lb_done(final(s)) == lb_done(old(s)) + lb_cur(old(s)) + b.bview(),
            lb_cur(final(s)) == Seq::<u8>::empty();

// ------------------------------------------------------------------ core combinators (A5)
pub assume_specification<T, E, U, F: FnOnce(T) -> Result<U, E>>[ Result::<T, E>::and_then ](r: Result<T, E>, op: F) -> (res: Result<U, E>)
    requires r is Ok ==> op.requires((r->Ok_0,)),
    ensures match r { Ok(v) => op.ensures((v,), res), Err(e) => res == Err::<U, E>(e) };

// ------------------------------------------------------------------ str (A5)
pub uninterp spec fn str_bytes(s: &str) -> Seq<u8>;
/// D13: `s.len()` on a `&str` is redirected to this wrapper (vstd already owns the specification of
/// `str::len`, stated over chars; the wire needs the byte length)
#[verifier::external_body]
pub fn vstr_len(s: &str) -> (r: usize)
    ensures r == str_bytes(s).len()
{ s.len() }
#[verifier::external_body]
pub fn vstr_as_bytes(s: &str) -> (r: &[u8])
    ensures r@ == str_bytes(s)
{ s.as_bytes() }

/// IEEE-754 bit pattern of an f64 (Verus has no float theory: bit identity is what the wire needs)
pub uninterp spec fn f64_bits(d: f64) -> u64;
pub uninterp spec fn f32_bits(d: f32) -> u32;

// core integer <-> byte-array intrinsics (A5; the same statements are checked bit-precisely by
// the Kani harness `a5_int_bytes`)
/// D13: `x.to_be_bytes()` / `x.to_le_bytes()` are redirected to these wrappers, whose bodies call
/// the real intrinsic (Verus cannot name the anonymous array-length constant in the intrinsic's
/// signature, so `assume_specification` is not available for them).
pub trait VBytes: Sized {
    type Arr;
    spec fn be_spec(self) -> Seq<u8>;
    spec fn le_spec(self) -> Seq<u8>;
    spec fn arr_view(a: Self::Arr) -> Seq<u8>;
    fn v_to_be_bytes(self) -> (r: Self::Arr) ensures Self::arr_view(r) == self.be_spec();
    fn v_to_le_bytes(self) -> (r: Self::Arr) ensures Self::arr_view(r) == self.le_spec();
}
impl VBytes for u16 {
    type Arr = [u8; 2];
    open spec fn be_spec(self) -> Seq<u8> { be16(self as nat) }
    open spec fn le_spec(self) -> Seq<u8> { le16(self as nat) }
    open spec fn arr_view(a: [u8; 2]) -> Seq<u8> { a@ }
    #[verifier::external_body]
    fn v_to_be_bytes(self) -> (r: [u8; 2]) { self.to_be_bytes() }
    #[verifier::external_body]
    fn v_to_le_bytes(self) -> (r: [u8; 2]) { self.to_le_bytes() }
}
impl VBytes for i16 {
    type Arr = [u8; 2];
    open spec fn be_spec(self) -> Seq<u8> { be16(tc(self as int, 16)) }
    open spec fn le_spec(self) -> Seq<u8> { le16(tc(self as int, 16)) }
    open spec fn arr_view(a: [u8; 2]) -> Seq<u8> { a@ }
    #[verifier::external_body]
    fn v_to_be_bytes(self) -> (r: [u8; 2]) { self.to_be_bytes() }
    #[verifier::external_body]
    fn v_to_le_bytes(self) -> (r: [u8; 2]) { self.to_le_bytes() }
}
impl VBytes for u32 {
    type Arr = [u8; 4];
    open spec fn be_spec(self) -> Seq<u8> { be32(self as nat) }
    open spec fn le_spec(self) -> Seq<u8> { le32(self as nat) }
    open spec fn arr_view(a: [u8; 4]) -> Seq<u8> { a@ }
    #[verifier::external_body]
    fn v_to_be_bytes(self) -> (r: [u8; 4]) { self.to_be_bytes() }
    #[verifier::external_body]
    fn v_to_le_bytes(self) -> (r: [u8; 4]) { self.to_le_bytes() }
}
impl VBytes for i32 {
    type Arr = [u8; 4];
    open spec fn be_spec(self) -> Seq<u8> { be32(tc(self as int, 32)) }
    open spec fn le_spec(self) -> Seq<u8> { le32(tc(self as int, 32)) }
    open spec fn arr_view(a: [u8; 4]) -> Seq<u8> { a@ }
    #[verifier::external_body]
    fn v_to_be_bytes(self) -> (r: [u8; 4]) { self.to_be_bytes() }
    #[verifier::external_body]
    fn v_to_le_bytes(self) -> (r: [u8; 4]) { self.to_le_bytes() }
}
impl VBytes for u64 {
    type Arr = [u8; 8];
    open spec fn be_spec(self) -> Seq<u8> { be64(self as nat) }
    open spec fn le_spec(self) -> Seq<u8> { le64(self as nat) }
    open spec fn arr_view(a: [u8; 8]) -> Seq<u8> { a@ }
    #[verifier::external_body]
    fn v_to_be_bytes(self) -> (r: [u8; 8]) { self.to_be_bytes() }
    #[verifier::external_body]
    fn v_to_le_bytes(self) -> (r: [u8; 8]) { self.to_le_bytes() }
}
impl VBytes for i64 {
    type Arr = [u8; 8];
    open spec fn be_spec(self) -> Seq<u8> { be64(tc(self as int, 64)) }
    open spec fn le_spec(self) -> Seq<u8> { le64(tc(self as int, 64)) }
    open spec fn arr_view(a: [u8; 8]) -> Seq<u8> { a@ }
    #[verifier::external_body]
    fn v_to_be_bytes(self) -> (r: [u8; 8]) { self.to_be_bytes() }
    #[verifier::external_body]
    fn v_to_le_bytes(self) -> (r: [u8; 8]) { self.to_le_bytes() }
}
pub assume_specification[ f64::to_bits ](d: f64) -> (r: u64) ensures r == f64_bits(d);
pub assume_specification[ f64::from_bits ](b: u64) -> (r: f64) ensures f64_bits(r) == b;
pub assume_specification[ f32::to_bits ](d: f32) -> (r: u32) ensures r == f32_bits(d);
pub assume_specification[ f32::from_bits ](b: u32) -> (r: f32) ensures f32_bits(r) == b;

// ------------------------------------------------------------------ allocation (D17)
/// D17: `vec![0; n]` is redirected to this wrapper.  Documented panic of the allocation: capacity
/// overflow when n > isize::MAX.  (The std `vec!` expansion is `alloc::vec::from_elem`.)
#[verifier::external_body]
pub fn valloc_zeroed(n: usize) -> (r: Vec<u8>)
    requires n <= isize::MAX as usize,
    ensures r@.len() == n, forall|i: int| 0 <= i < n ==> r@[i] == 0u8,
{ vec![0; n] }
/// D17b: same, for call sites where the bytes to be read are already in memory: the allocation must
/// be dominated by the number of input bytes still available (`avail` is `self.remaining()` there):
/// "never requests memory out of proportion to the input length" (C09)
#[verifier::external_body]
pub fn valloc_zeroed_within(n: usize, avail: usize) -> (r: Vec<u8>)
    requires n <= avail,   // (avail bytes are already held in memory, so n is a feasible allocation)
    ensures r@.len() == n, forall|i: int| 0 <= i < n ==> r@[i] == 0u8,
{ vec![0; n] }
/// D17c: for readers of a stream, whose remaining length is not observable at run time, the
/// availability bound is passed as a ghost argument (`avail` = bytes the stream will still deliver)
#[verifier::external_body]
pub fn valloc_zeroed_avail(n: usize, Ghost(avail): Ghost<nat>) -> (r: Vec<u8>)
    requires n <= avail, n <= isize::MAX as usize,
    ensures r@.len() == n, forall|i: int| 0 <= i < n ==> r@[i] == 0u8,
{ vec![0; n] }
/// D17d: `Vec::with_capacity(c)` in a reader of a stream: the reservation may exceed the bytes the
/// stream will still deliver by at most a constant (ALLOC_SLACK), whatever the wire says
pub const ALLOC_SLACK: usize = 65536;
#[verifier::external_body]
pub fn valloc_capacity_avail(c: usize, Ghost(avail): Ghost<nat>) -> (r: Vec<u8>)
    requires c <= avail + ALLOC_SLACK, c <= isize::MAX as usize,
    ensures r@.len() == 0,
{ Vec::with_capacity(c) }
/// `a.max(b)` on usize (Ord::max is generic)
#[verifier::external_body]
pub fn vmax_of_usize(a: usize, b: usize) -> (r: usize)
    ensures r == (if a >= b { a } else { b }),
{ core::cmp::max(a, b) }
/// `a.min(b)` on usize (Ord::min is generic)
#[verifier::external_body]
pub fn vmin_of_usize(a: usize, b: usize) -> (r: usize)
    ensures r == (if a <= b { a } else { b }),
{ core::cmp::min(a, b) }
/// `String::from_utf8_unchecked(v)`: the bytes of the string are v (UTF-8 validity is the caller's
/// obligation in the source and is not modelled)
#[verifier::external_body]
pub fn vstring_from_utf8_unchecked(v: Vec<u8>) -> (r: String)
    ensures string_bytes(&r) == v@,
{ unsafe { String::from_utf8_unchecked(v) } }

// ------------------------------------------------------------------ rewrite stubs (D2, D11, D12)
/// D2: `format!(..)`, `"..".to_string()` -- the text of a message is not modelled
#[verifier::external_body]
pub fn fmt_opaque() -> String { String::new() }
/// D11: `panic!(..)` -- reaching it is a failed obligation
#[verifier::external_body]
pub fn vpanic() -> !
    requires false
{ panic!() }
/// D12: `debug_assert!(c)` -- c must hold (it panics in the debug/test profile)
pub fn vdebug_assert(c: bool)
    requires c
{ }

} // verus!
}
pub use ext::*;


pub mod bytespec {
use vstd::prelude::*;
verus! {
// ------------------------------------------------------------------ spec: fixed-width integers
/// two's complement of v in `bits` bits, as a natural number
pub open spec fn tc(v: int, bits: nat) -> nat {
    if v < 0 { (v + pow2n(bits)) as nat } else { v as nat }
}
pub open spec fn pow2n(bits: nat) -> int {
    if bits == 8 { 0x100 } else if bits == 16 { 0x1_0000 } else if bits == 32 { 0x1_0000_0000 }
    else if bits == 64 { 0x1_0000_0000_0000_0000 } else { 0 }
}
/// opaque: exec-function proofs treat the bytes of an integer as uninterpreted terms; only the
/// lemmas below `reveal` the arithmetic (keeps every SMT query small and stable)
#[verifier::opaque]
pub open spec fn byte_at(n: nat, i: nat) -> u8 {   // i-th least significant byte
    if i == 0 { (n % 256) as u8 }
    else if i == 1 { ((n / 0x100) % 256) as u8 }
    else if i == 2 { ((n / 0x1_0000) % 256) as u8 }
    else if i == 3 { ((n / 0x100_0000) % 256) as u8 }
    else if i == 4 { ((n / 0x1_0000_0000) % 256) as u8 }
    else if i == 5 { ((n / 0x100_0000_0000) % 256) as u8 }
    else if i == 6 { ((n / 0x1_0000_0000_0000) % 256) as u8 }
    else { ((n / 0x100_0000_0000_0000) % 256) as u8 }
}
pub open spec fn be16(n: nat) -> Seq<u8> { seq![byte_at(n,1), byte_at(n,0)] }
pub open spec fn be32(n: nat) -> Seq<u8> { seq![byte_at(n,3), byte_at(n,2), byte_at(n,1), byte_at(n,0)] }
pub open spec fn be64(n: nat) -> Seq<u8> {
    seq![byte_at(n,7), byte_at(n,6), byte_at(n,5), byte_at(n,4), byte_at(n,3), byte_at(n,2), byte_at(n,1), byte_at(n,0)]
}
pub open spec fn le16(n: nat) -> Seq<u8> { seq![byte_at(n,0), byte_at(n,1)] }
pub open spec fn le32(n: nat) -> Seq<u8> { seq![byte_at(n,0), byte_at(n,1), byte_at(n,2), byte_at(n,3)] }
pub open spec fn le64(n: nat) -> Seq<u8> {
    seq![byte_at(n,0), byte_at(n,1), byte_at(n,2), byte_at(n,3), byte_at(n,4), byte_at(n,5), byte_at(n,6), byte_at(n,7)]
}
} // verus!
}
pub use bytespec::*;

pub mod casts {
use vstd::prelude::*;
use vstd::std_specs::convert::{IntoSpec, FromSpec};
use bytes::{Buf, Bytes};
use super::ext::BufSpec;
use super::bytespec::*;
verus! {
// ------------------------------------------------------------------ wrapping casts (proved, bit_vector)
pub broadcast proof fn lemma_u8_i8_u8(b: u8)
    ensures #[trigger] ((b as i8) as u8) == b
{ assert(((b as i8) as u8) == b) by (bit_vector); }
pub broadcast proof fn lemma_i8_u8_i8(b: i8)
    ensures #[trigger] ((b as u8) as i8) == b
{ assert(((b as u8) as i8) == b) by (bit_vector); }
pub broadcast proof fn lemma_i8_u8_zero(b: i8)
    ensures (#[trigger] (b as u8) == 0u8) <==> b == 0i8
{ assert(((b as u8) == 0u8) <==> b == 0i8) by (bit_vector); }
/// u32 -> i32 reinterpretation is two's complement
pub broadcast proof fn lemma_u32_as_i32(x: u32)
    ensures x < 0x8000_0000u32 ==> (#[trigger] (x as i32)) as int == x as int,
            x >= 0x8000_0000u32 ==> (x as i32) as int == x as int - 0x1_0000_0000
{
    assert(x >= 0x8000_0000u32 ==> ((x as i32) as i64) == (x as i64) - 0x1_0000_0000i64) by (bit_vector);
    assert(x < 0x8000_0000u32 ==> ((x as i32) as i64) == (x as i64)) by (bit_vector);
}
/// i32 -> u8 truncation keeps the low byte of the two's complement word
pub broadcast proof fn lemma_i32_as_u8(x: i32)
    ensures (#[trigger] (x as u8)) as int == tc(x as int, 32) % 256
{
    assert((x as u8) as u32 == (x as u32) % 256u32) by (bit_vector);
    lemma_i32_as_u32(x);
}
/// usize -> i32 truncation is the identity below 2^31 (lengths and counts on the wire)
pub broadcast proof fn lemma_usize_as_i32(x: usize)
    ensures x < 0x8000_0000usize ==> (#[trigger] (x as i32)) as int == x as int
{ }
/// version-word | message-type: the type occupies the low bits, no carry
pub broadcast proof fn lemma_version_or(m: u32)
    ensures m < 0x1_0000u32 ==> (#[trigger] (0x8001_0000u32 | m)) == 0x8001_0000u32 + m,
{ assert(m < 0x1_0000u32 ==> (0x8001_0000u32 | m) == 0x8001_0000u32 + m) by (bit_vector); }
pub broadcast proof fn lemma_version_le_or(m: u32)
    ensures m < 0x1_0000u32 ==> (#[trigger] (0x8888_0000u32 | m)) == 0x8888_0000u32 + m,
{ assert(m < 0x1_0000u32 ==> (0x8888_0000u32 | m) == 0x8888_0000u32 + m) by (bit_vector); }
/// (a ++ b) ++ c == a ++ (b ++ c)
pub broadcast proof fn lemma_seq_assoc(a: Seq<u8>, b: Seq<u8>, c: Seq<u8>)
    ensures #[trigger] ((a + b) + c) == a + (b + c)
{ assert(((a + b) + c) =~= a + (b + c)); }
pub broadcast proof fn lemma_seq_assoc2(a: Seq<u8>, b: Seq<u8>, c: Seq<u8>)
    ensures #[trigger] (a + (b + c)) == (a + b) + c
{ assert(((a + b) + c) =~= a + (b + c)); }
/// i32 -> usize reinterpretation: sign extension
pub broadcast proof fn lemma_i32_as_usize(x: i32)
    ensures x >= 0 ==> (#[trigger] (x as usize)) as int == x as int,
            x < 0 ==> (x as usize) > 0x7fff_ffff_ffff_ffffusize
{
    assert(x < 0i32 ==> (x as usize) > 0x7fff_ffff_ffff_ffffusize) by (bit_vector);
}
/// i32 -> u32 reinterpretation is two's complement
pub broadcast proof fn lemma_i32_as_u32(x: i32)
    ensures x >= 0 ==> (#[trigger] (x as u32)) as int == x as int,
            x < 0 ==> (x as u32) as int == x as int + 0x1_0000_0000
{
    assert(x < 0i32 ==> ((x as u32) as i64) == (x as i64) + 0x1_0000_0000i64) by (bit_vector);
}
/// strict binary message header: `word & 0xffff0000` compares the version half-word, `word & 0xf`
/// extracts the message type (m is the mask constant as it appears after the u32 -> i32 cast)
pub broadcast proof fn lemma_msg_word_mask(size: i32, m: i32)
    requires m == -65536i32
    ensures ((#[trigger] (size & m)) == -2147418112i32) <==> (tc(size as int, 32) / 0x1_0000 == 0x8001),
            ((size & m) == -2004353024i32) <==> (tc(size as int, 32) / 0x1_0000 == 0x8888),
{
    assert(((size & -65536i32) == -2147418112i32) <==> ((size as u32) / 0x1_0000u32 == 0x8001u32)) by (bit_vector);
    assert(((size & -65536i32) == -2004353024i32) <==> ((size as u32) / 0x1_0000u32 == 0x8888u32)) by (bit_vector);
    lemma_i32_as_u32(size);
}
pub broadcast proof fn lemma_msg_word_type(size: i32)
    ensures 0 <= (#[trigger] (size & 0xfi32)) <= 15, (size & 0xfi32) as int == tc(size as int, 32) % 16
{
    assert(0 <= (size & 0xfi32) <= 15) by (bit_vector);
    assert(((size & 0xfi32) as u32) == (size as u32) % 16u32) by (bit_vector);
    lemma_i32_as_u32(size);
}
/// nibble / bit-field packing used by the compact protocol headers
pub broadcast proof fn lemma_shl4_u8(d: u8)
    ensures d < 16 ==> (#[trigger] (d << 4u8)) == d * 16
{ assert(d < 16u8 ==> (d << 4u8) == d * 16u8) by (bit_vector); }
pub broadcast proof fn lemma_shl4_i32(x: i32)
    ensures 0 <= x < 16 ==> (#[trigger] (x << 4i32)) == x * 16
{ assert(0i32 <= x && x < 16i32 ==> (x << 4i32) == x * 16i32) by (bit_vector); }
pub broadcast proof fn lemma_or_low_nibble(a: u8, c: u8)
    ensures (a % 16 == 0 && c < 16) ==> (#[trigger] (a | c)) == a + c
{ assert((a % 16u8 == 0u8 && c < 16u8) ==> (a | c) == a + c) by (bit_vector); }
pub broadcast proof fn lemma_and_0f(h: u8)
    ensures (#[trigger] (h & 0x0fu8)) == h % 16
{ assert((h & 0x0fu8) == h % 16u8) by (bit_vector); }
pub broadcast proof fn lemma_and_f0(h: u8)
    ensures (#[trigger] (h & 0xf0u8)) == (h / 16) * 16, ((h & 0xf0u8) >> 4u8) == h / 16
{ assert((h & 0xf0u8) == (h / 16u8) * 16u8) by (bit_vector); assert(((h & 0xf0u8) >> 4u8) == h / 16u8) by (bit_vector); }
pub broadcast proof fn lemma_and_1f(h: u8)
    ensures (#[trigger] (h & 0x1fu8)) == h % 32
{ assert((h & 0x1fu8) == h % 32u8) by (bit_vector); }
pub broadcast proof fn lemma_and_e0(h: u8)
    ensures (#[trigger] (h & 0xe0u8)) == (h / 32) * 32
{ assert((h & 0xe0u8) == (h / 32u8) * 32u8) by (bit_vector); }
pub broadcast proof fn lemma_shr5(h: u8)
    ensures (#[trigger] (h >> 5u8)) == h / 32
{ assert((h >> 5u8) == h / 32u8) by (bit_vector); }
pub broadcast proof fn lemma_shl5(m: u8)
    ensures m < 8 ==> (#[trigger] (m << 5u8)) == m * 32
{ assert(m < 8u8 ==> (m << 5u8) == m * 32u8) by (bit_vector); }
pub broadcast proof fn lemma_or_low5(a: u8, c: u8)
    ensures (c % 32 == 0 && a < 32) ==> (#[trigger] (a | c)) == a + c
{ assert((c % 32u8 == 0u8 && a < 32u8) ==> (a | c) == a + c) by (bit_vector); }
pub broadcast proof fn lemma_and_msb(b: u8)
    ensures ((#[trigger] (b & 0x80u8)) == 0) <==> b < 128
{ assert(((b & 0x80u8) == 0u8) <==> b < 128u8) by (bit_vector); }
/// protobuf key arithmetic (key = field_number << 3 | wire_type) in the spellings a decoder may use
pub broadcast proof fn lemma_and7_u64(k: u64)
    ensures (#[trigger] (k & 0x07u64)) == k % 8
{ assert((k & 0x07u64) == k % 8u64) by (bit_vector); }
pub broadcast proof fn lemma_shr3_u64(k: u64)
    ensures (#[trigger] (k >> 3u64)) == k / 8
{ assert((k >> 3u64) == k / 8u64) by (bit_vector); }
pub broadcast proof fn lemma_and7_u32(k: u32)
    ensures (#[trigger] (k & 0x07u32)) == k % 8
{ assert((k & 0x07u32) == k % 8u32) by (bit_vector); }
pub broadcast proof fn lemma_shr3_u32(k: u32)
    ensures (#[trigger] (k >> 3u32)) == k / 8
{ assert((k >> 3u32) == k / 8u32) by (bit_vector); }
// ---- further spellings of the same bit-field facts (false-alarm hardening, see DESIGN section 10)
pub broadcast proof fn lemma_shr1_u8(h: u8)
    ensures (#[trigger] (h >> 1u8)) == h / 2
{ assert((h >> 1u8) == h / 2u8) by (bit_vector); }
pub broadcast proof fn lemma_shr2_u8(h: u8)
    ensures (#[trigger] (h >> 2u8)) == h / 4
{ assert((h >> 2u8) == h / 4u8) by (bit_vector); }
pub broadcast proof fn lemma_shr3_u8(h: u8)
    ensures (#[trigger] (h >> 3u8)) == h / 8
{ assert((h >> 3u8) == h / 8u8) by (bit_vector); }
pub broadcast proof fn lemma_shr4_u8(h: u8)
    ensures (#[trigger] (h >> 4u8)) == h / 16
{ assert((h >> 4u8) == h / 16u8) by (bit_vector); }
pub broadcast proof fn lemma_shr6_u8(h: u8)
    ensures (#[trigger] (h >> 6u8)) == h / 64
{ assert((h >> 6u8) == h / 64u8) by (bit_vector); }
pub broadcast proof fn lemma_shr7_u8(h: u8)
    ensures (#[trigger] (h >> 7u8)) == h / 128
{ assert((h >> 7u8) == h / 128u8) by (bit_vector); }
pub broadcast proof fn lemma_and_01_u8(h: u8)
    ensures (#[trigger] (h & 0x01u8)) == h % 2
{ assert((h & 0x01u8) == h % 2u8) by (bit_vector); }
pub broadcast proof fn lemma_and_03_u8(h: u8)
    ensures (#[trigger] (h & 0x03u8)) == h % 4
{ assert((h & 0x03u8) == h % 4u8) by (bit_vector); }
pub broadcast proof fn lemma_and_07_u8(h: u8)
    ensures (#[trigger] (h & 0x07u8)) == h % 8
{ assert((h & 0x07u8) == h % 8u8) by (bit_vector); }
pub broadcast proof fn lemma_and_3f_u8(h: u8)
    ensures (#[trigger] (h & 0x3fu8)) == h % 64
{ assert((h & 0x3fu8) == h % 64u8) by (bit_vector); }
pub broadcast proof fn lemma_and_7f_u8(h: u8)
    ensures (#[trigger] (h & 0x7fu8)) == h % 128
{ assert((h & 0x7fu8) == h % 128u8) by (bit_vector); }
/// equivalent spellings of the nibble / 3-bit field extractions (so that a behaviour-preserving rewrite of the
/// expression does not leave the proof without its bit-level fact)
pub broadcast proof fn lemma_and_e0_shr5(h: u8)
    ensures (#[trigger] ((h & 0xe0u8) >> 5u8)) == h / 32
{ assert(((h & 0xe0u8) >> 5u8) == h / 32u8) by (bit_vector); }
pub broadcast group group_bits { lemma_and7_u64, lemma_shr3_u64, lemma_and7_u32, lemma_shr3_u32, lemma_shr1_u8, lemma_shr2_u8, lemma_shr3_u8, lemma_shr4_u8, lemma_shr6_u8, lemma_shr7_u8, lemma_and_01_u8, lemma_and_03_u8, lemma_and_07_u8, lemma_and_3f_u8, lemma_and_7f_u8, lemma_and_e0_shr5, lemma_shl4_u8, lemma_shl4_i32, lemma_or_low_nibble, lemma_and_0f, lemma_and_f0, lemma_and_1f, lemma_and_e0,
    lemma_shr5, lemma_shl5, lemma_or_low5, lemma_and_msb }
/// core: `impl<T> From<T> for Option<T>` and `impl<T> From<T> for T` (A5, assumed)
pub broadcast axiom fn axiom_into_option<T>(x: T)
    ensures #[trigger] <T as IntoSpec<Option<T>>>::into_spec(x) == Some(x);
pub broadcast axiom fn axiom_into_option_obeys<T>()
    ensures #[trigger] <T as IntoSpec<Option<T>>>::obeys_into_spec();
pub broadcast axiom fn axiom_into_self<T>(x: T)
    ensures #[trigger] <T as IntoSpec<T>>::into_spec(x) == x;
pub broadcast axiom fn axiom_into_self_obeys<T>()
    ensures #[trigger] <T as IntoSpec<T>>::obeys_into_spec();
pub broadcast axiom fn axiom_from_option<T>(x: T)
    ensures #[trigger] <Option<T> as FromSpec<T>>::from_spec(x) == Some(x);
pub broadcast axiom fn axiom_from_option_obeys<T>()
    ensures #[trigger] <Option<T> as FromSpec<T>>::obeys_from_spec();
/// bytes: a Bytes never holds more than isize::MAX bytes (Rust allocation limit; A2, assumed)
pub broadcast axiom fn axiom_bytes_len(b: Bytes)
    ensures (#[trigger] b.rem()).len() <= isize::MAX;
/// bytes: `impl From<Bytes> for Vec<u8>` copies the content (A2, assumed)
pub broadcast axiom fn axiom_vec_from_bytes(b: Bytes)
    ensures (#[trigger] <Vec<u8> as FromSpec<Bytes>>::from_spec(b))@ == b.rem();
pub broadcast axiom fn axiom_vec_from_bytes_obeys()
    ensures #[trigger] <Vec<u8> as FromSpec<Bytes>>::obeys_from_spec();
pub broadcast group group_casts { lemma_i32_as_u8, lemma_i32_as_usize, lemma_i32_as_u32, lemma_msg_word_mask, lemma_msg_word_type, axiom_into_option, axiom_into_option_obeys, axiom_into_self, axiom_into_self_obeys,
    axiom_from_option, axiom_from_option_obeys, axiom_bytes_len, axiom_vec_from_bytes, axiom_vec_from_bytes_obeys, lemma_seq_assoc2, lemma_u8_i8_u8, lemma_i8_u8_i8, lemma_i8_u8_zero, lemma_u32_as_i32, lemma_usize_as_i32,
    lemma_version_or, lemma_version_le_or }

} // verus!
}
