// ---------------------------------------------------------------------------------------------
// thrift_compact_spec.rs -- the Thrift *compact* protocol as mathematics, written from
// apache/thrift doc/specs/thrift-compact-protocol.md (not from pilota's code).
// ---------------------------------------------------------------------------------------------
pub mod cspec {
use super::*;
use vstd::prelude::*;
verus! {

/// compact type codes ("Struct encoding" table); BooleanTrue doubles as the element type `bool`
pub open spec fn ctype_u8(t: TCompactType) -> u8 {
    match t {
        TCompactType::Stop => 0u8, TCompactType::BooleanTrue => 1u8, TCompactType::BooleanFalse => 2u8,
        TCompactType::Byte => 3u8, TCompactType::I16 => 4u8, TCompactType::I32 => 5u8, TCompactType::I64 => 6u8,
        TCompactType::Double => 7u8, TCompactType::Binary => 8u8, TCompactType::List => 9u8, TCompactType::Set => 10u8,
        TCompactType::Map => 11u8, TCompactType::Struct => 12u8, TCompactType::Uuid => 13u8,
    }
}
pub open spec fn ctype_of(b: u8) -> TCompactType {
    if b == 0 { TCompactType::Stop } else if b == 1 { TCompactType::BooleanTrue } else if b == 2 { TCompactType::BooleanFalse }
    else if b == 3 { TCompactType::Byte } else if b == 4 { TCompactType::I16 } else if b == 5 { TCompactType::I32 }
    else if b == 6 { TCompactType::I64 } else if b == 7 { TCompactType::Double } else if b == 8 { TCompactType::Binary }
    else if b == 9 { TCompactType::List } else if b == 10 { TCompactType::Set } else if b == 11 { TCompactType::Map }
    else if b == 12 { TCompactType::Struct } else { TCompactType::Uuid }
}
/// the compact code a value of wire type t is announced with (bool -> 1, i.e. BooleanTrue)
pub open spec fn ttype_ctype(t: TType) -> Option<TCompactType> {
    match t {
        TType::Stop => Some(TCompactType::Stop), TType::Bool => Some(TCompactType::BooleanTrue), TType::I8 => Some(TCompactType::Byte),
        TType::I16 => Some(TCompactType::I16), TType::I32 => Some(TCompactType::I32), TType::I64 => Some(TCompactType::I64),
        TType::Double => Some(TCompactType::Double), TType::Binary => Some(TCompactType::Binary), TType::List => Some(TCompactType::List),
        TType::Set => Some(TCompactType::Set), TType::Map => Some(TCompactType::Map), TType::Struct => Some(TCompactType::Struct),
        TType::Uuid => Some(TCompactType::Uuid), TType::Void => None,
    }
}
pub open spec fn ctype_ttype(c: TCompactType) -> TType {
    match c {
        TCompactType::Stop => TType::Stop, TCompactType::BooleanTrue => TType::Bool, TCompactType::BooleanFalse => TType::Bool,
        TCompactType::Byte => TType::I8, TCompactType::I16 => TType::I16, TCompactType::I32 => TType::I32, TCompactType::I64 => TType::I64,
        TCompactType::Double => TType::Double, TCompactType::Binary => TType::Binary, TCompactType::List => TType::List,
        TCompactType::Set => TType::Set, TCompactType::Map => TType::Map, TCompactType::Struct => TType::Struct, TCompactType::Uuid => TType::Uuid,
    }
}

/// ZigZag: 0 -> 0, -1 -> 1, 1 -> 2, -2 -> 3, ...
pub open spec fn zz(v: int) -> nat { if v >= 0 { (2 * v) as nat } else { (-2 * v - 1) as nat } }
pub open spec fn unzz(n: nat) -> int { if n % 2 == 0 { (n / 2) as int } else { -((n / 2) as int) - 1 } }
/// ULEB128: 7 bits per byte, least significant group first, high bit = continuation
pub open spec fn uleb(n: nat) -> Seq<u8>
    decreases n
{
    if n < 128 { seq![n as u8] } else { seq![((n % 128) + 128) as u8] + uleb(n / 128) }
}
pub open spec fn cp_i16(v: i16) -> Seq<u8> { uleb(zz(v as int)) }
pub open spec fn cp_i32(v: i32) -> Seq<u8> { uleb(zz(v as int)) }
pub open spec fn cp_i64(v: i64) -> Seq<u8> { uleb(zz(v as int)) }
pub open spec fn cp_double(d: f64) -> Seq<u8> { le64(f64_bits(d) as nat) }
pub open spec fn cp_bytes(b: Seq<u8>) -> Seq<u8> { uleb(b.len()) + b }
pub open spec fn cp_bool_elem(b: bool) -> Seq<u8> { seq![if b { 1u8 } else { 2u8 }] }
/// field header given the id of the previous field of the same struct
/// (the spec allows the long form always; the short form needs 0 < delta <= 15)
pub open spec fn cp_field_short(last: i16, ct: u8, id: i16) -> Seq<u8> { seq![(((id - last) * 16) + ct) as u8] }
pub open spec fn cp_field_long(ct: u8, id: i16) -> Seq<u8> { seq![ct] + cp_i16(id) }
pub open spec fn cp_field_legal(last: i16, ct: u8, id: i16, bytes: Seq<u8>) -> bool {
    bytes == cp_field_long(ct, id) || (0 < id - last <= 15 && bytes == cp_field_short(last, ct, id))
}
/// pilota's writer choice between the two legal forms: short form for deltas 1..=14 (the spec allows
/// up to 15; both the writer and the length pass are checked against this same predicate)
pub open spec fn cp_uses_short(last: i16, id: i16) -> bool { 0 < id - last < 15 }
pub open spec fn cp_field_w(last: i16, ct: u8, id: i16) -> Seq<u8> {
    if cp_uses_short(last, id) { cp_field_short(last, ct, id) } else { cp_field_long(ct, id) }
}
pub proof fn lemma_field_w_legal(last: i16, ct: u8, id: i16)
    ensures cp_field_legal(last, ct, id, cp_field_w(last, ct, id))
{ }
/// list / set header
pub open spec fn cp_coll_begin(ct: u8, n: nat) -> Seq<u8> {
    if n <= 14 { seq![((n * 16) + ct) as u8] } else { seq![(0xF0 + ct) as u8] + uleb(n) }
}
pub open spec fn cp_map_begin(kt: u8, vt: u8, n: nat) -> Seq<u8> {
    if n == 0 { seq![0u8] } else { uleb(n) + seq![((kt * 16) + vt) as u8] }
}
/// message header: protocol id 0x82, (type << 5) | version 1, sequence id as unsigned varint, name
pub open spec fn cp_message_begin(name: Seq<u8>, mt: TMessageType, seq: i32) -> Seq<u8> {
    seq![0x82u8, ((mtype_u8(mt) * 32) + 1) as u8] + uleb(tc(seq as int, 32)) + cp_bytes(name)
}

// ------------------------------------------------------------------------------------------
// varint mathematics
pub proof fn lemma_zz_inv(v: int) ensures unzz(zz(v)) == v { }
pub proof fn lemma_zz_range16(v: i16) ensures zz(v as int) < 0x1_0000 { }
pub proof fn lemma_zz_range32(v: i32) ensures zz(v as int) < 0x1_0000_0000 { }
pub proof fn lemma_zz_range64(v: i64) ensures zz(v as int) < 0x1_0000_0000_0000_0000 { }

pub open spec fn uleb_len(n: nat) -> nat
    decreases n
{ if n < 128 { 1 } else { 1 + uleb_len(n / 128) } }
pub proof fn lemma_uleb_len(n: nat)
    ensures uleb(n).len() == uleb_len(n), uleb_len(n) >= 1
    decreases n
{ if n >= 128 { lemma_uleb_len(n / 128); } }
pub proof fn lemma_uleb_len_bound(n: nat)
    ensures n < 0x80 ==> uleb_len(n) == 1,
            n < 0x1_0000 ==> uleb_len(n) <= 3,
            n < 0x1_0000_0000 ==> uleb_len(n) <= 5,
            n < 0x1_0000_0000_0000_0000 ==> uleb_len(n) <= 10,
{
    reveal_with_fuel(uleb_len, 11);
}
/// every byte of uleb(n) but the last has the continuation bit; the last has not
pub open spec fn leb_terminated(s: Seq<u8>, k: int) -> bool {
    1 <= k <= s.len() && s[k - 1] < 128 && forall|i: int| 0 <= i < k - 1 ==> s[i] >= 128
}
pub proof fn lemma_uleb_terminated(n: nat)
    ensures leb_terminated(uleb(n), uleb(n).len() as int)
    decreases n
{
    lemma_uleb_len(n);
    if n >= 128 {
        lemma_uleb_terminated(n / 128);
        lemma_uleb_len(n / 128);
        let t = uleb(n / 128);
        let s = uleb(n);
        assert(s =~= seq![((n % 128) + 128) as u8] + t);
        assert forall|i: int| 0 <= i < s.len() - 1 implies s[i] >= 128 by {
            if i > 0 { assert(s[i] == t[i - 1]); }
        }
        assert(s[s.len() - 1] == t[t.len() - 1]);
    }
}
/// position just after the first byte without continuation bit (0 when there is none): the length of
/// the varint the sequence starts with
pub open spec fn leb_end(s: Seq<u8>) -> int
    decreases s.len()
{
    if s.len() == 0 { 0 } else if s[0] < 128 { 1 } else { let r = leb_end(s.skip(1)); if r == 0 { 0 } else { 1 + r } }
}
pub proof fn lemma_leb_end_bounds(s: Seq<u8>)
    ensures 0 <= leb_end(s) <= s.len()
    decreases s.len()
{ if s.len() > 0 && s[0] >= 128 { lemma_leb_end_bounds(s.skip(1)); } }
/// leb_end is the unique termination point
pub proof fn lemma_leb_end_terminated(s: Seq<u8>, k: int)
    requires leb_terminated(s, k)
    ensures leb_end(s) == k
    decreases k
{
    if k == 1 { } else {
        assert(s[0] >= 128);
        let t = s.skip(1);
        assert(t[k - 2] == s[k - 1]);
        assert forall|i: int| 0 <= i < k - 2 implies t[i] >= 128 by { assert(t[i] == s[i + 1]); }
        lemma_leb_end_terminated(t, k - 1);
    }
}
pub proof fn lemma_leb_end_is_terminated(s: Seq<u8>)
    requires leb_end(s) > 0
    ensures leb_terminated(s, leb_end(s))
    decreases s.len()
{
    if s[0] < 128 { } else {
        let t = s.skip(1);
        lemma_leb_end_is_terminated(t);
        lemma_leb_end_bounds(t);
        let k = leb_end(s);
        assert(s[k - 1] == t[k - 2]);
        assert forall|i: int| 0 <= i < k - 1 implies s[i] >= 128 by { if i > 0 { assert(s[i] == t[i - 1]); } }
    }
}
/// no terminator among the first n bytes
pub proof fn lemma_leb_no_end_before(s: Seq<u8>, n: int)
    requires 0 <= n <= s.len(), forall|j: int| 0 <= j < n ==> s[j] >= 128
    ensures leb_end(s) == 0 || leb_end(s) > n
    decreases n
{
    lemma_leb_end_bounds(s);
    if n > 0 {
        let t = s.skip(1);
        assert(s[0] >= 128);
        assert forall|j: int| 0 <= j < n - 1 implies t[j] >= 128 by { assert(t[j] == s[j + 1]); }
        lemma_leb_no_end_before(t, n - 1);
        assert(leb_end(s) == (if leb_end(t) == 0 { 0 } else { 1 + leb_end(t) }));
    }
}
/// leb_end depends only on the bytes up to the terminator
pub proof fn lemma_leb_end_prefix(a: Seq<u8>, b: Seq<u8>)
    requires leb_end(a) > 0
    ensures leb_end(a + b) == leb_end(a)
{
    lemma_leb_end_is_terminated(a);
    let k = leb_end(a);
    let s = a + b;
    assert forall|i: int| 0 <= i < k implies s[i] == a[i] by { }
    assert(leb_terminated(s, k));
    lemma_leb_end_terminated(s, k);
}
/// value of a terminated LEB128 prefix of length k
pub open spec fn leb_val(s: Seq<u8>, k: int) -> nat
    decreases k
{
    if k <= 0 { 0 } else { ((s[0] % 128) as nat) + 128 * leb_val(s.skip(1), k - 1) }
}
pub proof fn lemma_leb_val_uleb(n: nat, rest: Seq<u8>)
    ensures leb_val(uleb(n) + rest, uleb(n).len() as int) == n
    decreases n
{
    lemma_uleb_len(n);
    let s = uleb(n) + rest;
    if n < 128 {
        assert(s[0] == n as u8);
        assert(leb_val(s.skip(1), 0) == 0);
    } else {
        let t = uleb(n / 128);
        lemma_uleb_len(n / 128);
        assert(s[0] == ((n % 128) + 128) as u8);
        assert(s.skip(1) =~= t + rest);
        lemma_leb_val_uleb(n / 128, rest);
    }
}
/// prefix-freeness: two ULEB128 encodings that start the same two byte strings are equal
pub proof fn lemma_uleb_prefix_free(a: nat, ra: Seq<u8>, b: nat, rb: Seq<u8>)
    requires uleb(a) + ra == uleb(b) + rb
    ensures a == b, ra == rb
    decreases a
{
    let s = uleb(a) + ra;
    lemma_uleb_len(a); lemma_uleb_len(b);
    assert(s[0] == uleb(a)[0] && s[0] == uleb(b)[0]);
    if a < 128 {
        if b >= 128 { assert(uleb(b)[0] >= 128); assert(false); }
        assert(a == b);
        assert(ra =~= s.skip(1)); assert(rb =~= s.skip(1));
    } else {
        if b < 128 { assert(uleb(a)[0] >= 128); assert(false); }
        assert(a % 128 == b % 128);
        assert(s.skip(1) =~= uleb(a / 128) + ra);
        assert(s.skip(1) =~= uleb(b / 128) + rb);
        lemma_uleb_prefix_free(a / 128, ra, b / 128, rb);
    }
}
pub proof fn lemma_leb_val_agree(a: Seq<u8>, b: Seq<u8>, k: int)
    requires 0 <= k <= a.len(), k <= b.len(), forall|j: int| 0 <= j < k ==> a[j] == b[j]
    ensures leb_val(a, k) == leb_val(b, k)
    decreases k
{
    if k > 0 {
        assert forall|j: int| 0 <= j < k - 1 implies a.skip(1)[j] == b.skip(1)[j] by { assert(a.skip(1)[j] == a[j + 1]); assert(b.skip(1)[j] == b[j + 1]); }
        lemma_leb_val_agree(a.skip(1), b.skip(1), k - 1);
    }
}
/// the accumulator holds i bytes equal to the input prefix, the last one terminates, none before does
pub proof fn lemma_varint_done(buf: Seq<u8>, i: int, inp: Seq<u8>)
    requires 1 <= i <= buf.len(), i <= inp.len(), forall|j: int| 0 <= j < i ==> buf[j] == inp[j],
             buf[i - 1] < 128, forall|j: int| 0 <= j < i - 1 ==> inp[j] >= 128
    ensures leb_terminated(buf.take(i), i), leb_terminated(inp, i),
            forall|k: int| leb_terminated(buf.take(i), k) ==> k == i,
            forall|k: int| leb_terminated(inp, k) ==> k == i,
            leb_val(buf.take(i), i) == leb_val(inp, i),
            leb_end(inp) == i, leb_end(buf.take(i)) == i
{
    let t = buf.take(i);
    assert forall|j: int| 0 <= j < i implies t[j] == inp[j] by { }
    assert(leb_terminated(t, i));
    assert forall|k: int| leb_terminated(t, k) implies k == i by {
        if k < i { assert(t[k - 1] == inp[k - 1]); }
    }
    assert forall|k: int| leb_terminated(inp, k) implies k == i by {
        if k > i { assert(inp[i - 1] == buf[i - 1]); }
    }
    lemma_leb_val_agree(t, inp, i);
    lemma_leb_end_terminated(inp, i);
    lemma_leb_end_terminated(t, i);
}
pub proof fn lemma_zz_inj(a: int, b: int) requires zz(a) == zz(b) ensures a == b { }

// Round-trip theorems for the compact primitives over the reader/writer contracts
pub proof fn thm_cp_rt_i32(w: i32, rest: Seq<u8>, v: i32, remaining: Seq<u8>)
    requires cp_i32(w) + rest == cp_i32(v) + remaining
    ensures v == w, remaining == rest
{ lemma_uleb_prefix_free(zz(w as int), rest, zz(v as int), remaining); lemma_zz_inj(w as int, v as int); }
pub proof fn thm_cp_rt_i16(w: i16, rest: Seq<u8>, v: i16, remaining: Seq<u8>)
    requires cp_i16(w) + rest == cp_i16(v) + remaining
    ensures v == w, remaining == rest
{ lemma_uleb_prefix_free(zz(w as int), rest, zz(v as int), remaining); lemma_zz_inj(w as int, v as int); }
pub proof fn thm_cp_rt_i64(w: i64, rest: Seq<u8>, v: i64, remaining: Seq<u8>)
    requires cp_i64(w) + rest == cp_i64(v) + remaining
    ensures v == w, remaining == rest
{ lemma_uleb_prefix_free(zz(w as int), rest, zz(v as int), remaining); lemma_zz_inj(w as int, v as int); }
pub proof fn thm_cp_rt_bytes(w: Seq<u8>, rest: Seq<u8>, v: Seq<u8>, remaining: Seq<u8>)
    requires cp_bytes(w) + rest == cp_bytes(v) + remaining
    ensures v == w, remaining == rest
{
    assert(cp_bytes(w) + rest =~= uleb(w.len()) + (w + rest));
    assert(cp_bytes(v) + remaining =~= uleb(v.len()) + (v + remaining));
    lemma_uleb_prefix_free(w.len(), w + rest, v.len(), v + remaining);
    lemma_split_eq(w, rest, v, remaining);
}

} // verus!
}
pub use cspec::*;
