// ---------------------------------------------------------------------------------------------
// thrift_iskip_spec.rs -- what the explicit work stack of the ITERATIVE skipper
// (TBinaryUnsafeInputProtocol::skip_till_depth) means, in terms of the recursive grammar of
// binary-protocol values (thrift_skip_spec.rs).  A frame (a, b, n) stands for "n more values,
// whose types alternate b, a, b, a, ... ending with a" -- the next one is `a` when n is even and
// `b` when n is odd (a list/set frame has a == b; a map frame is (key, value, 2 * entries); a frame
// of type Struct stands for "the rest of an open struct", which the grammar reads as the struct
// value bskip_val(Struct) = its fields up to the stop byte).  kont(stack, r) is the number of bytes
// the values still owed by the whole stack occupy at the start of r.
// ---------------------------------------------------------------------------------------------
pub mod iskipspec {
use super::*;
use vstd::prelude::*;
verus! {

pub struct Fr { pub a: TType, pub b: TType, pub n: nat }
pub open spec fn fr_next(f: Fr) -> TType { if f.n % 2 == 0 { f.a } else { f.b } }
/// one value of the top frame done: count it down, drop the frame when nothing is left
pub open spec fn fr_dec(st: Seq<Fr>) -> Seq<Fr>
    recommends st.len() > 0, st.last().n > 0
{
    let f = st.last();
    if f.n <= 1 { st.drop_last() } else { st.drop_last().push(Fr { a: f.a, b: f.b, n: (f.n - 1) as nat }) }
}
pub open spec fn kont(st: Seq<Fr>, r: Seq<u8>, d: nat) -> Option<nat>
    decreases st.len(), (if st.len() > 0 { st.last().n } else { 0 })
{
    if st.len() == 0 { Some(0nat) }
    else if st.last().n == 0 { None }
    else {
        match bskip_val(false, fr_next(st.last()), r, d) {
            None => None,
            Some(k) => if k > r.len() { None } else {
                match kont(fr_dec(st), r.skip(k as int), d) { None => None, Some(m) => Some(k + m) } },
        }
    }
}
/// the value of type t the machine is about to consume, then everything the stack still owes.  A value
/// of type Struct is consumed field by field with its frame still on the stack: the frame is counted
/// down when the stop byte is reached, the others have been counted down already.
pub open spec fn head(t: TType, st: Seq<Fr>, r: Seq<u8>, d: nat) -> Option<nat> {
    match bskip_val(false, t, r, d) {
        None => None,
        Some(k) => if k > r.len() { None } else {
            match kont(if t == TType::Struct { fr_dec(st) } else { st }, r.skip(k as int), d) { None => None, Some(m) => Some(k + m) } },
    }
}

// ---- monotonicity in the depth budget: a value well-formed within d levels is the same value within d + 1
pub proof fn lemma_mono_val(t: TType, s: Seq<u8>, d: nat)
    requires bskip_val(false, t, s, d) is Some
    ensures bskip_val(false, t, s, d + 1) == bskip_val(false, t, s, d)
    decreases d, s.len(), 2nat
{
    match t {
        TType::Struct => lemma_mono_fields(s, d),
        TType::List | TType::Set => { lemma_mono_elems(ttype_of(s[0]), s.skip(5), bcount(false, s.skip(1))->Some_0, (d - 1) as nat); }
        TType::Map => { lemma_mono_entries(ttype_of(s[0]), ttype_of(s[1]), s.skip(6), bcount(false, s.skip(2))->Some_0, (d - 1) as nat); }
        _ => {}
    }
}
pub proof fn lemma_mono_fields(s: Seq<u8>, d: nat)
    requires bskip_fields(false, s, d) is Some
    ensures bskip_fields(false, s, d + 1) == bskip_fields(false, s, d)
    decreases d, s.len(), 1nat
{
    if s[0] != 0 {
        let k = bskip_val(false, ttype_of(s[0]), s.skip(3), (d - 1) as nat)->Some_0;
        lemma_mono_val(ttype_of(s[0]), s.skip(3), (d - 1) as nat);
        lemma_mono_fields(s.skip((3 + k) as int), d);
    }
}
pub proof fn lemma_mono_elems(t: TType, s: Seq<u8>, n: nat, d: nat)
    requires bskip_elems(false, t, s, n, d) is Some
    ensures bskip_elems(false, t, s, n, d + 1) == bskip_elems(false, t, s, n, d)
    decreases d, s.len() + n, 3nat
{
    if n > 0 {
        let k = bskip_val(false, t, s, d)->Some_0;
        lemma_mono_val(t, s, d);
        lemma_mono_elems(t, s.skip(k as int), (n - 1) as nat, d);
    }
}
pub proof fn lemma_mono_entries(kt: TType, vt: TType, s: Seq<u8>, n: nat, d: nat)
    requires bskip_entries(false, kt, vt, s, n, d) is Some
    ensures bskip_entries(false, kt, vt, s, n, d + 1) == bskip_entries(false, kt, vt, s, n, d)
    decreases d, s.len() + 2 * n, 3nat
{
    if n > 0 {
        let k = bskip_val(false, kt, s, d)->Some_0;
        lemma_mono_val(kt, s, d);
        let v = bskip_val(false, vt, s.skip(k as int), d)->Some_0;
        lemma_mono_val(vt, s.skip(k as int), d);
        lemma_mono_entries(kt, vt, s.skip((k + v) as int), (n - 1) as nat, d);
    }
}

/// one unfolding of kont, as a lemma (so that a proof can unfold a second level without raising the fuel)
pub proof fn lemma_kont_unfold(st: Seq<Fr>, r: Seq<u8>, d: nat)
    requires st.len() > 0, st.last().n > 0
    ensures kont(st, r, d) == (match bskip_val(false, fr_next(st.last()), r, d) {
                None => None::<nat>,
                Some(k) => if k > r.len() { None } else { match kont(fr_dec(st), r.skip(k as int), d) { None => None, Some(m) => Some(k + m) } } })
{ }
// ---- a homogeneous frame of n values is bskip_elems; a (key, value, 2n) frame is bskip_entries
pub proof fn lemma_kont_elems(st: Seq<Fr>, t: TType, n: nat, r: Seq<u8>, d: nat)
    requires n >= 1
    ensures kont(st.push(Fr { a: t, b: t, n: n }), r, d) == (match bskip_elems(false, t, r, n, d) {
                None => None::<nat>,
                Some(e) => if e > r.len() { None } else { match kont(st, r.skip(e as int), d) { None => None, Some(m) => Some(e + m) } } })
    decreases n
{
    let f = Fr { a: t, b: t, n: n };
    let stf = st.push(f);
    assert(stf.last() == f);
    assert(stf.drop_last() =~= st);
    assert(fr_next(f) == t);
    match bskip_val(false, t, r, d) {
        None => {}
        Some(k) => {
            if k <= r.len() {
                lemma_bskip_val_bounds(false, t, r, d);
                if n == 1 {
                    assert(fr_dec(stf) =~= st);
                    assert(bskip_elems(false, t, r.skip(k as int), 0, d) == Some(0nat));
                    assert(r.skip(k as int).skip(0) =~= r.skip(k as int));
                } else {
                    assert(fr_dec(stf) =~= st.push(Fr { a: t, b: t, n: (n - 1) as nat }));
                    lemma_kont_elems(st, t, (n - 1) as nat, r.skip(k as int), d);
                    match bskip_elems(false, t, r.skip(k as int), (n - 1) as nat, d) {
                        None => {}
                        Some(e) => {
                            lemma_bskip_elems_bounds(false, t, r.skip(k as int), (n - 1) as nat, d);
                            assert(r.skip(k as int).skip(e as int) =~= r.skip((k + e) as int));
                        }
                    }
                }
            }
        }
    }
}
/// one (key, value) pair of a map frame
pub proof fn lemma_kont_pair(st: Seq<Fr>, kt: TType, vt: TType, n: nat, r: Seq<u8>, d: nat)
    requires n >= 1
    ensures kont(st.push(Fr { a: kt, b: vt, n: 2 * n }), r, d) == (match bskip_val(false, kt, r, d) {
                None => None::<nat>,
                Some(k) => if k > r.len() { None } else { match bskip_val(false, vt, r.skip(k as int), d) {
                    None => None,
                    Some(v) => if k + v > r.len() { None } else {
                        match kont(if n == 1 { st } else { st.push(Fr { a: kt, b: vt, n: (2 * (n - 1)) as nat }) }, r.skip((k + v) as int), d) {
                            None => None, Some(m) => Some(k + v + m) } } } } })
{
    hide(bskip_val); hide(bskip_fields); hide(bskip_elems); hide(bskip_entries);
    let f = Fr { a: kt, b: vt, n: 2 * n };
    let stf = st.push(f);
    assert(stf.last() == f);
    assert(stf.drop_last() =~= st);
    assert(fr_next(f) == kt);
    lemma_kont_unfold(stf, r, d);
    let f1 = Fr { a: kt, b: vt, n: (2 * n - 1) as nat };
    let st1 = st.push(f1);
    assert(fr_dec(stf) =~= st1);
    assert(st1.last() == f1);
    assert(st1.drop_last() =~= st);
    assert(fr_next(f1) == vt);
    if n == 1 { assert(fr_dec(st1) =~= st); } else { assert(fr_dec(st1) =~= st.push(Fr { a: kt, b: vt, n: (2 * (n - 1)) as nat })); }
    match bskip_val(false, kt, r, d) {
        None => {}
        Some(k) => {
            if k <= r.len() {
                let r1 = r.skip(k as int);
                lemma_kont_unfold(st1, r1, d);
                match bskip_val(false, vt, r1, d) {
                    None => {}
                    Some(v) => { if v <= r1.len() { assert(r1.skip(v as int) =~= r.skip((k + v) as int)); } }
                }
            }
        }
    }
}
pub proof fn lemma_kont_entries(st: Seq<Fr>, kt: TType, vt: TType, n: nat, r: Seq<u8>, d: nat)
    requires n >= 1
    ensures kont(st.push(Fr { a: kt, b: vt, n: 2 * n }), r, d) == (match bskip_entries(false, kt, vt, r, n, d) {
                None => None::<nat>,
                Some(e) => if e > r.len() { None } else { match kont(st, r.skip(e as int), d) { None => None, Some(m) => Some(e + m) } } })
    decreases n
{
    hide(bskip_fields); hide(bskip_elems);
    lemma_kont_pair(st, kt, vt, n, r, d);
    match bskip_val(false, kt, r, d) {
        None => {}
        Some(k) => {
            if k <= r.len() {
                lemma_bskip_val_bounds(false, kt, r, d);
                let r1 = r.skip(k as int);
                match bskip_val(false, vt, r1, d) {
                    None => {}
                    Some(v) => {
                        if v <= r1.len() {
                            lemma_bskip_val_bounds(false, vt, r1, d);
                            let r2 = r.skip((k + v) as int);
                            if n == 1 {
                                assert(bskip_entries(false, kt, vt, r2, 0, d) == Some(0nat));
                                assert(r2.skip(0) =~= r2);
                            } else {
                                lemma_kont_entries(st, kt, vt, (n - 1) as nat, r2, d);
                                match bskip_entries(false, kt, vt, r2, (n - 1) as nat, d) {
                                    None => {}
                                    Some(e) => {
                                        lemma_bskip_entries_bounds(false, kt, vt, r2, (n - 1) as nat, d);
                                        assert(r2.skip(e as int) =~= r.skip((k + v + e) as int));
                                    }
                                }
                            }
                        }
                    }
                }
            }
        }
    }
}

// ---- fixed-size fast paths
/// size of a value whose size does not depend on its content (the table BINARY_BASIC_TYPE_FIXED_SIZE must agree)
pub open spec fn fixed_sz(t: TType) -> nat {
    match t {
        TType::Bool | TType::I8 => 1, TType::I16 => 2, TType::I32 => 4, TType::I64 | TType::Double => 8, TType::Uuid => 16, _ => 0,
    }
}
pub proof fn lemma_fixed_val(t: TType, s: Seq<u8>, d: nat)
    requires fixed_sz(t) > 0, d > 0
    ensures bskip_val(false, t, s, d) == (if s.len() >= fixed_sz(t) { Some(fixed_sz(t)) } else { None::<nat> })
{ }
pub proof fn lemma_fixed_elems(t: TType, s: Seq<u8>, n: nat, d: nat)
    requires fixed_sz(t) > 0, d > 0
    ensures bskip_elems(false, t, s, n, d) == (if s.len() >= n * fixed_sz(t) { Some(n * fixed_sz(t)) } else { None::<nat> })
    decreases n
{
    let z = fixed_sz(t);
    if n > 0 {
        lemma_fixed_val(t, s, d);
        assert(n * z == z + (n - 1) * z) by (nonlinear_arith);
        if s.len() >= z {
            lemma_fixed_elems(t, s.skip(z as int), (n - 1) as nat, d);
        } else {
            assert(n * z >= z) by (nonlinear_arith) requires n >= 1;
        }
    } else {
        assert(n * z == 0) by (nonlinear_arith) requires n == 0;
    }
}
pub proof fn lemma_fixed_entries(kt: TType, vt: TType, s: Seq<u8>, n: nat, d: nat)
    requires fixed_sz(kt) > 0, fixed_sz(vt) > 0, d > 0
    ensures bskip_entries(false, kt, vt, s, n, d) == (if s.len() >= n * (fixed_sz(kt) + fixed_sz(vt)) { Some(n * (fixed_sz(kt) + fixed_sz(vt))) } else { None::<nat> })
    decreases n
{
    let z = fixed_sz(kt) + fixed_sz(vt);
    if n > 0 {
        lemma_fixed_val(kt, s, d);
        assert(n * z == z + (n - 1) * z) by (nonlinear_arith);
        if s.len() >= fixed_sz(kt) {
            lemma_fixed_val(vt, s.skip(fixed_sz(kt) as int), d);
            if s.len() >= z {
                assert(s.skip(fixed_sz(kt) as int).skip(fixed_sz(vt) as int) =~= s.skip(z as int));
                lemma_fixed_entries(kt, vt, s.skip(z as int), (n - 1) as nat, d);
            } else {
                assert(n * z >= z) by (nonlinear_arith) requires n >= 1;
            }
        } else {
            assert(n * z >= z) by (nonlinear_arith) requires n >= 1;
        }
    } else {
        assert(n * z == 0) by (nonlinear_arith) requires n == 0;
    }
}

// ---- the transitions of the machine, one lemma per case of the loop body (each a small query; the loop
//      itself is verified with the grammar functions hidden and uses only these statements)
pub proof fn lemma_step_init(t: TType, s: Seq<u8>, d: nat)
    requires bskip_val(false, t, s, d) is Some
    ensures d > 0, bskip_val(false, t, s, d)->Some_0 <= s.len(),
            head(t, if t == TType::Struct { seq![Fr { a: TType::Struct, b: TType::Struct, n: 1 }] } else { Seq::<Fr>::empty() }, s, d) == bskip_val(false, t, s, d)
{
    lemma_bskip_val_bounds(false, t, s, d);
    let k = bskip_val(false, t, s, d)->Some_0;
    let st = seq![Fr { a: TType::Struct, b: TType::Struct, n: 1 }];
    assert(fr_dec(st) =~= Seq::<Fr>::empty());
    assert(kont(Seq::<Fr>::empty(), s.skip(k as int), d) == Some(0nat));
}
pub proof fn lemma_step_bad(t: TType, st: Seq<Fr>, r: Seq<u8>, d: nat)
    requires t == TType::Stop || t == TType::Void
    ensures head(t, st, r, d) is None
{ }
pub proof fn lemma_step_done(r: Seq<u8>, d: nat)
    ensures kont(Seq::<Fr>::empty(), r, d) == Some(0nat)
{ }
pub proof fn lemma_step_fixed(t: TType, st: Seq<Fr>, r: Seq<u8>, d: nat, rem: nat)
    requires head(t, st, r, d) == Some(rem), fixed_sz(t) > 0
    ensures fixed_sz(t) <= r.len(), rem >= fixed_sz(t), kont(st, r.skip(fixed_sz(t) as int), d) == Some((rem - fixed_sz(t)) as nat)
{ }
pub proof fn lemma_step_binary(st: Seq<Fr>, r: Seq<u8>, d: nat, rem: nat)
    requires head(TType::Binary, st, r, d) == Some(rem)
    ensures r.len() >= 4, rd32(false, r) < 0x8000_0000, 4 + rd32(false, r) <= r.len(), rem >= 4 + rd32(false, r),
            kont(st, r.skip((4 + rd32(false, r)) as int), d) == Some((rem - 4 - rd32(false, r)) as nat)
{ }
pub proof fn lemma_step_struct(st: Seq<Fr>, r: Seq<u8>, d: nat, rem: nat)
    requires head(TType::Struct, st, r, d) == Some(rem)
    ensures r.len() >= 1, r[0] != 0 ==> (r.len() >= 3 && is_ttype_code(r[0])),
            r[0] == 0 ==> (rem >= 1 && kont(fr_dec(st), r.skip(1), d) == Some((rem - 1) as nat)),
            (r[0] != 0 && fixed_sz(ttype_of(r[0])) > 0) ==> (3 + fixed_sz(ttype_of(r[0])) <= r.len() && rem >= 3 + fixed_sz(ttype_of(r[0]))
                && head(TType::Struct, st, r.skip((3 + fixed_sz(ttype_of(r[0]))) as int), d) == Some((rem - 3 - fixed_sz(ttype_of(r[0]))) as nat)),
            (r[0] != 0 && fixed_sz(ttype_of(r[0])) == 0 && st.len() > 0 && st.last().n >= 1 && fr_next(st.last()) == TType::Struct) ==> (rem >= 3
                && kont(st.push(Fr { a: ttype_of(r[0]), b: ttype_of(r[0]), n: 1 }), r.skip(3), d) == Some((rem - 3) as nat)),
{
    if r[0] != 0 {
        let ft = ttype_of(r[0]);
        let v = bskip_val(false, ft, r.skip(3), (d - 1) as nat)->Some_0;
        lemma_bskip_val_bounds(false, ft, r.skip(3), (d - 1) as nat);
        let rest = bskip_fields(false, r.skip((3 + v) as int), d)->Some_0;
        lemma_bskip_fields_bounds(false, r.skip((3 + v) as int), d);
        assert(r.skip((3 + v) as int).skip(rest as int) =~= r.skip((3 + v + rest) as int));
        if fixed_sz(ft) > 0 {
            lemma_fixed_val(ft, r.skip(3), (d - 1) as nat);
        } else if st.len() > 0 && st.last().n >= 1 && fr_next(st.last()) == TType::Struct {
            lemma_mono_val(ft, r.skip(3), (d - 1) as nat);
            lemma_kont_elems(st, ft, 1, r.skip(3), d);
            assert(bskip_elems(false, ft, r.skip(3).skip(v as int), 0, d) == Some(0nat));
            assert(r.skip(3).skip(v as int) =~= r.skip((3 + v) as int));
            lemma_kont_unfold(st, r.skip((3 + v) as int), d);
        }
    }
}
pub proof fn lemma_step_coll(t: TType, st: Seq<Fr>, r: Seq<u8>, d: nat, rem: nat)
    requires head(t, st, r, d) == Some(rem), t == TType::List || t == TType::Set
    ensures r.len() >= 5, is_ttype_code(r[0]), bcount(false, r.skip(1)) is Some, rem >= 5,
            ({ let n = bcount(false, r.skip(1))->Some_0; let et = ttype_of(r[0]); let z = fixed_sz(et);
               z * n == n * z
               && (n == 0 ==> kont(st, r.skip(5), d) == Some((rem - 5) as nat))
               && ((n > 0 && z > 0) ==> (5 + n * z <= r.len() && rem >= 5 + n * z && kont(st, r.skip((5 + n * z) as int), d) == Some((rem - 5 - n * z) as nat)))
               && ((n > 0 && z == 0) ==> kont(st.push(Fr { a: et, b: et, n: n }), r.skip(5), d) == Some((rem - 5) as nat)) })
{
    let n = bcount(false, r.skip(1))->Some_0; let et = ttype_of(r[0]); let z = fixed_sz(et);
    assert(z * n == n * z) by (nonlinear_arith);
    let e = bskip_elems(false, et, r.skip(5), n, (d - 1) as nat)->Some_0;
    lemma_bskip_elems_bounds(false, et, r.skip(5), n, (d - 1) as nat);
    assert(r.skip(5).skip(e as int) =~= r.skip((5 + e) as int));
    if n > 0 {
        assert(bskip_val(false, et, r.skip(5), (d - 1) as nat) is Some);
        if z > 0 { lemma_fixed_elems(et, r.skip(5), n, (d - 1) as nat); }
        else { lemma_mono_elems(et, r.skip(5), n, (d - 1) as nat); lemma_kont_elems(st, et, n, r.skip(5), d); }
    } else {
        assert(r.skip(5).skip(0) =~= r.skip(5));
    }
}
pub proof fn lemma_step_map(st: Seq<Fr>, r: Seq<u8>, d: nat, rem: nat)
    requires head(TType::Map, st, r, d) == Some(rem)
    ensures r.len() >= 6, is_ttype_code(r[0]), is_ttype_code(r[1]), bcount(false, r.skip(2)) is Some, rem >= 6,
            ({ let n = bcount(false, r.skip(2))->Some_0; let kt = ttype_of(r[0]); let vt = ttype_of(r[1]); let z = fixed_sz(kt) + fixed_sz(vt);
               z * n == n * z
               && (n == 0 ==> kont(st, r.skip(6), d) == Some((rem - 6) as nat))
               && ((n > 0 && fixed_sz(kt) > 0 && fixed_sz(vt) > 0) ==> (6 + n * z <= r.len() && rem >= 6 + n * z && kont(st, r.skip((6 + n * z) as int), d) == Some((rem - 6 - n * z) as nat)))
               && ((n > 0 && !(fixed_sz(kt) > 0 && fixed_sz(vt) > 0)) ==> kont(st.push(Fr { a: kt, b: vt, n: 2 * n }), r.skip(6), d) == Some((rem - 6) as nat)) })
{
    let n = bcount(false, r.skip(2))->Some_0; let kt = ttype_of(r[0]); let vt = ttype_of(r[1]);
    let z = fixed_sz(kt) + fixed_sz(vt);
    assert(z * n == n * z) by (nonlinear_arith);
    let e = bskip_entries(false, kt, vt, r.skip(6), n, (d - 1) as nat)->Some_0;
    lemma_bskip_entries_bounds(false, kt, vt, r.skip(6), n, (d - 1) as nat);
    assert(r.skip(6).skip(e as int) =~= r.skip((6 + e) as int));
    if n > 0 {
        assert(bskip_val(false, kt, r.skip(6), (d - 1) as nat) is Some);
        if fixed_sz(kt) > 0 && fixed_sz(vt) > 0 { lemma_fixed_entries(kt, vt, r.skip(6), n, (d - 1) as nat); }
        else { lemma_mono_entries(kt, vt, r.skip(6), n, (d - 1) as nat); lemma_kont_entries(st, kt, vt, n, r.skip(6), d); }
    } else {
        assert(r.skip(6).skip(0) =~= r.skip(6));
    }
}
/// after a value: the next one is the top frame's; a non-struct value has its frame counted down first
pub proof fn lemma_step_next(st: Seq<Fr>, r: Seq<u8>, d: nat, rem: nat)
    requires kont(st, r, d) == Some(rem), st.len() > 0
    ensures st.last().n >= 1,
            ({ let t = fr_next(st.last()); head(t, if t == TType::Struct { st } else { fr_dec(st) }, r, d) == Some(rem) })
{ }

} // verus!
}
pub use iskipspec::*;
