// ---------------------------------------------------------------------------------------------
// thrift_bin_spec.rs -- the Thrift *binary* protocol as mathematics, written from
// apache/thrift doc/specs/thrift-binary-protocol.md (not from pilota's code).
// `le == true` is pilota's little-endian variant (same layout, integers little-endian,
// version word 0x8888....).
// ---------------------------------------------------------------------------------------------
pub mod binspec {
use super::*;
use vstd::prelude::*;
verus! {

/// type codes of thrift-binary-protocol.md ("Struct encoding": field-type) + uuid (16)
pub open spec fn ttype_u8(t: TType) -> u8 {
    match t {
        TType::Stop => 0u8, TType::Void => 1u8, TType::Bool => 2u8, TType::I8 => 3u8, TType::Double => 4u8,
        TType::I16 => 6u8, TType::I32 => 8u8, TType::I64 => 10u8, TType::Binary => 11u8, TType::Struct => 12u8,
        TType::Map => 13u8, TType::Set => 14u8, TType::List => 15u8, TType::Uuid => 16u8,
    }
}
pub open spec fn is_ttype_code(b: u8) -> bool {
    b == 0 || b == 1 || b == 2 || b == 3 || b == 4 || b == 6 || b == 8 || b == 10 || b == 11 || b == 12 || b == 13
        || b == 14 || b == 15 || b == 16
}
/// message types: Call 1, Reply 2, Exception 3, Oneway 4
pub open spec fn mtype_u8(t: TMessageType) -> u8 {
    match t { TMessageType::Call => 1u8, TMessageType::Reply => 2u8, TMessageType::Exception => 3u8, TMessageType::OneWay => 4u8 }
}

impl vstd::std_specs::convert::FromSpecImpl<TType> for u8 {
    open spec fn obeys_from_spec() -> bool { true }
    open spec fn from_spec(t: TType) -> u8 { ttype_u8(t) }
}
impl vstd::std_specs::convert::FromSpecImpl<TMessageType> for u8 {
    open spec fn obeys_from_spec() -> bool { true }
    open spec fn from_spec(t: TMessageType) -> u8 { mtype_u8(t) }
}

/// inverse of ttype_u8 on the valid codes
pub open spec fn ttype_of(b: u8) -> TType {
    if b == 0 { TType::Stop } else if b == 1 { TType::Void } else if b == 2 { TType::Bool } else if b == 3 { TType::I8 }
    else if b == 4 { TType::Double } else if b == 6 { TType::I16 } else if b == 8 { TType::I32 } else if b == 10 { TType::I64 }
    else if b == 11 { TType::Binary } else if b == 12 { TType::Struct } else if b == 13 { TType::Map } else if b == 14 { TType::Set }
    else if b == 15 { TType::List } else { TType::Uuid }
}
pub open spec fn mtype_of(b: u8) -> TMessageType {
    if b == 1 { TMessageType::Call } else if b == 2 { TMessageType::Reply } else if b == 3 { TMessageType::Exception } else { TMessageType::OneWay }
}
/// "Type codes outside the specification are rejected with an error" (C03)
impl vstd::std_specs::convert::TryFromSpecImpl<u8> for TType {
    open spec fn obeys_try_from_spec() -> bool { true }
    open spec fn try_from_spec(v: u8) -> Result<TType, ThriftException> {
        if is_ttype_code(v) { Ok(ttype_of(v)) } else { Err(thrift_err()) }
    }
}
impl vstd::std_specs::convert::TryFromSpecImpl<u8> for TMessageType {
    open spec fn obeys_try_from_spec() -> bool { true }
    open spec fn try_from_spec(v: u8) -> Result<TMessageType, ThriftException> {
        if 1 <= v <= 4 { Ok(mtype_of(v)) } else { Err(thrift_err()) }
    }
}

pub open spec fn w16(le: bool, n: nat) -> Seq<u8> { if le { le16(n) } else { be16(n) } }
pub open spec fn w32(le: bool, n: nat) -> Seq<u8> { if le { le32(n) } else { be32(n) } }
pub open spec fn w64(le: bool, n: nat) -> Seq<u8> { if le { le64(n) } else { be64(n) } }

pub open spec fn bin_bool(b: bool) -> Seq<u8> { seq![if b { 1u8 } else { 0u8 }] }
pub open spec fn bin_i8(v: i8) -> Seq<u8> { seq![v as u8] }
pub open spec fn bin_i16(le: bool, v: i16) -> Seq<u8> { w16(le, tc(v as int, 16)) }
pub open spec fn bin_i32(le: bool, v: i32) -> Seq<u8> { w32(le, tc(v as int, 32)) }
pub open spec fn bin_i64(le: bool, v: i64) -> Seq<u8> { w64(le, tc(v as int, 64)) }
pub open spec fn bin_double(le: bool, d: f64) -> Seq<u8> { w64(le, f64_bits(d) as nat) }
/// binary / string: i32 byte length, then the bytes
pub open spec fn bin_bytes(le: bool, b: Seq<u8>) -> Seq<u8> { w32(le, b.len()) + b }
/// value of the first four bytes of s as an unsigned 32-bit integer
#[verifier::opaque]
pub open spec fn rd32(le: bool, s: Seq<u8>) -> nat
    recommends s.len() >= 4
{
    if le { (s[0] as nat) + (s[1] as nat) * 0x100 + (s[2] as nat) * 0x1_0000 + (s[3] as nat) * 0x100_0000 }
    else  { (s[3] as nat) + (s[2] as nat) * 0x100 + (s[1] as nat) * 0x1_0000 + (s[0] as nat) * 0x100_0000 }
}
/// `s` starts with a complete length-prefixed byte string: 4-byte non-negative length, then that many bytes
pub open spec fn bin_bytes_ok(le: bool, s: Seq<u8>) -> bool {
    s.len() >= 4 && rd32(le, s) < 0x8000_0000 && s.len() >= 4 + rd32(le, s)
}
/// `s` starts with a complete length-prefixed byte string (non-negative i32 length, then that many bytes)
pub open spec fn bin_has_bytes(le: bool, s: Seq<u8>) -> bool {
    exists|b: Seq<u8>, rest: Seq<u8>| b.len() < 0x8000_0000 && s == #[trigger] (bin_bytes(le, b) + rest)
}
pub open spec fn bin_field_begin(le: bool, t: TType, id: i16) -> Seq<u8> { seq![ttype_u8(t)] + bin_i16(le, id) }
pub open spec fn bin_stop() -> Seq<u8> { seq![0u8] }
pub open spec fn bin_list_begin(le: bool, t: TType, n: nat) -> Seq<u8> { seq![ttype_u8(t)] + w32(le, n) }
pub open spec fn bin_map_begin(le: bool, k: TType, v: TType, n: nat) -> Seq<u8> { seq![ttype_u8(k), ttype_u8(v)] + w32(le, n) }
/// strict message header: version word (high bit set) | message type, name, sequence id
pub open spec fn bin_version(le: bool) -> nat { if le { 0x8888_0000 } else { 0x8001_0000 } }
pub open spec fn bin_message_begin(le: bool, name: Seq<u8>, mt: TMessageType, seq: i32) -> Seq<u8> {
    w32(le, bin_version(le) + mtype_u8(mt) as nat) + bin_bytes(le, name) + bin_i32(le, seq)
}

/// what a reader must accept as a strict message header (thrift-binary-protocol.md: the low byte
/// of the first word carries the type in its low bits, the byte above it is unused):
/// word u with the version half-word, type = u mod 16, then name and sequence id
pub open spec fn bin_msg_accepts(le: bool, s: Seq<u8>, name: Seq<u8>, mt: TMessageType, seq: i32, rest: Seq<u8>) -> bool {
    let u = rd32(le, s);
    s.len() >= 4 && u / 0x1_0000 == bin_version(le) / 0x1_0000 && u % 16 == mtype_u8(mt) as nat
        && s == w32(le, u) + bin_bytes(le, name) + bin_i32(le, seq) + rest
}
/// the input does start with a complete, valid strict message header
pub open spec fn bin_msg_ok(le: bool, s: Seq<u8>) -> bool {
    let u = rd32(le, s);
    s.len() >= 4 && u / 0x1_0000 == bin_version(le) / 0x1_0000 && 1 <= u % 16 <= 4
        && bin_bytes_ok(le, s.skip(4)) && s.len() >= 4 + 4 + rd32(le, s.skip(4)) + 4
}

// ------------------------------------------------------------------------------------------
// injectivity / prefix lemmas used by the round-trip theorems (pure mathematics)
pub proof fn lemma_byte_at_bound(n: nat, i: nat)
    ensures byte_at(n, i) as nat == (if i == 0 { n % 256 } else if i == 1 { (n / 0x100) % 256 }
        else if i == 2 { (n / 0x1_0000) % 256 } else if i == 3 { (n / 0x100_0000) % 256 }
        else if i == 4 { (n / 0x1_0000_0000) % 256 } else if i == 5 { (n / 0x100_0000_0000) % 256 }
        else if i == 6 { (n / 0x1_0000_0000_0000) % 256 } else { (n / 0x100_0000_0000_0000) % 256 })
{ reveal(byte_at); }

pub proof fn lemma_w16_inj(le: bool, a: nat, b: nat)
    requires a < 0x1_0000, b < 0x1_0000, w16(le, a) == w16(le, b)
    ensures a == b
{
    reveal(byte_at);
    let x = a as u64; let y = b as u64;
    let p = w16(le, a); let q = w16(le, b);
    assert(p[0] == q[0] && p[1] == q[1]);
    assert(byte_at(a, 0) == byte_at(b, 0) && byte_at(a, 1) == byte_at(b, 1));
    assert(x % 256 == y % 256 && (x / 0x100) % 256 == (y / 0x100) % 256);
    assert((x < 0x1_0000 && y < 0x1_0000 && x % 256 == y % 256 && (x / 0x100) % 256 == (y / 0x100) % 256) ==> x == y) by (bit_vector);
}
pub proof fn lemma_w32_inj(le: bool, a: nat, b: nat)
    requires a < 0x1_0000_0000, b < 0x1_0000_0000, w32(le, a) == w32(le, b)
    ensures a == b
{
    reveal(byte_at);
    let x = a as u64; let y = b as u64;
    let p = w32(le, a); let q = w32(le, b);
    assert(p[0] == q[0] && p[1] == q[1] && p[2] == q[2] && p[3] == q[3]);
    assert(byte_at(a, 0) == byte_at(b, 0) && byte_at(a, 1) == byte_at(b, 1) && byte_at(a, 2) == byte_at(b, 2) && byte_at(a, 3) == byte_at(b, 3));
    assert(x % 256 == y % 256 && (x / 0x100) % 256 == (y / 0x100) % 256 && (x / 0x1_0000) % 256 == (y / 0x1_0000) % 256
        && (x / 0x100_0000) % 256 == (y / 0x100_0000) % 256);
    assert((x < 0x1_0000_0000 && y < 0x1_0000_0000 && x % 256 == y % 256 && (x / 0x100) % 256 == (y / 0x100) % 256
        && (x / 0x1_0000) % 256 == (y / 0x1_0000) % 256 && (x / 0x100_0000) % 256 == (y / 0x100_0000) % 256) ==> x == y) by (bit_vector);
}
pub proof fn lemma_w64_inj(le: bool, a: nat, b: nat)
    requires a < 0x1_0000_0000_0000_0000, b < 0x1_0000_0000_0000_0000, w64(le, a) == w64(le, b)
    ensures a == b
{
    reveal(byte_at);
    let x = a as u64; let y = b as u64;
    let p = w64(le, a); let q = w64(le, b);
    assert(p[0] == q[0] && p[1] == q[1] && p[2] == q[2] && p[3] == q[3] && p[4] == q[4] && p[5] == q[5] && p[6] == q[6] && p[7] == q[7]);
    assert(byte_at(a, 0) == byte_at(b, 0) && byte_at(a, 1) == byte_at(b, 1) && byte_at(a, 2) == byte_at(b, 2) && byte_at(a, 3) == byte_at(b, 3)
        && byte_at(a, 4) == byte_at(b, 4) && byte_at(a, 5) == byte_at(b, 5) && byte_at(a, 6) == byte_at(b, 6) && byte_at(a, 7) == byte_at(b, 7));
    assert(x % 256 == y % 256 && (x / 0x100) % 256 == (y / 0x100) % 256 && (x / 0x1_0000) % 256 == (y / 0x1_0000) % 256
        && (x / 0x100_0000) % 256 == (y / 0x100_0000) % 256 && (x / 0x1_0000_0000) % 256 == (y / 0x1_0000_0000) % 256
        && (x / 0x100_0000_0000) % 256 == (y / 0x100_0000_0000) % 256 && (x / 0x1_0000_0000_0000) % 256 == (y / 0x1_0000_0000_0000) % 256
        && (x / 0x100_0000_0000_0000) % 256 == (y / 0x100_0000_0000_0000) % 256);
    assert((x % 256 == y % 256 && (x / 0x100) % 256 == (y / 0x100) % 256 && (x / 0x1_0000) % 256 == (y / 0x1_0000) % 256
        && (x / 0x100_0000) % 256 == (y / 0x100_0000) % 256 && (x / 0x1_0000_0000) % 256 == (y / 0x1_0000_0000) % 256
        && (x / 0x100_0000_0000) % 256 == (y / 0x100_0000_0000) % 256 && (x / 0x1_0000_0000_0000) % 256 == (y / 0x1_0000_0000_0000) % 256
        && (x / 0x100_0000_0000_0000) % 256 == (y / 0x100_0000_0000_0000) % 256) ==> x == y) by (bit_vector);
}
pub proof fn lemma_tc_inj(a: int, b: int, bits: nat)
    requires bits == 8 || bits == 16 || bits == 32 || bits == 64,
             -pow2n(bits) / 2 <= a < pow2n(bits) / 2, -pow2n(bits) / 2 <= b < pow2n(bits) / 2,
             tc(a, bits) == tc(b, bits)
    ensures a == b
{ }

/// splitting `x + r1 == y + r2` when the two prefixes have the same length
pub proof fn lemma_split_eq(x: Seq<u8>, r1: Seq<u8>, y: Seq<u8>, r2: Seq<u8>)
    requires x + r1 == y + r2, x.len() == y.len()
    ensures x == y, r1 == r2
{
    assert(x =~= (x + r1).take(x.len() as int));
    assert(y =~= (y + r2).take(y.len() as int));
    assert(r1 =~= (x + r1).skip(x.len() as int));
    assert(r2 =~= (y + r2).skip(y.len() as int));
}

// ------------------------------------------------------------------------------------------
// Round-trip theorems for the binary primitives: *any* reader that satisfies the reader
// contract (`input == enc(v) ++ remaining`) on an input produced by the writer contract
// (`output == enc(w)`) followed by arbitrary data `rest` returns v == w and leaves `rest`.
pub proof fn thm_rt_i16(le: bool, w: i16, rest: Seq<u8>, v: i16, remaining: Seq<u8>)
    requires bin_i16(le, w) + rest == bin_i16(le, v) + remaining
    ensures v == w, remaining == rest
{
    lemma_split_eq(bin_i16(le, w), rest, bin_i16(le, v), remaining);
    lemma_w16_inj(le, tc(w as int, 16), tc(v as int, 16));
}
pub proof fn thm_rt_i32(le: bool, w: i32, rest: Seq<u8>, v: i32, remaining: Seq<u8>)
    requires bin_i32(le, w) + rest == bin_i32(le, v) + remaining
    ensures v == w, remaining == rest
{
    lemma_split_eq(bin_i32(le, w), rest, bin_i32(le, v), remaining);
    lemma_w32_inj(le, tc(w as int, 32), tc(v as int, 32));
}
pub proof fn thm_rt_i64(le: bool, w: i64, rest: Seq<u8>, v: i64, remaining: Seq<u8>)
    requires bin_i64(le, w) + rest == bin_i64(le, v) + remaining
    ensures v == w, remaining == rest
{
    lemma_split_eq(bin_i64(le, w), rest, bin_i64(le, v), remaining);
    lemma_w64_inj(le, tc(w as int, 64), tc(v as int, 64));
}
pub proof fn thm_rt_double(le: bool, w: f64, rest: Seq<u8>, v: f64, remaining: Seq<u8>)
    requires bin_double(le, w) + rest == bin_double(le, v) + remaining
    ensures f64_bits(v) == f64_bits(w), remaining == rest
{
    lemma_split_eq(bin_double(le, w), rest, bin_double(le, v), remaining);
    lemma_w64_inj(le, f64_bits(w) as nat, f64_bits(v) as nat);
}
pub proof fn thm_rt_bytes(le: bool, w: Seq<u8>, rest: Seq<u8>, v: Seq<u8>, remaining: Seq<u8>)
    requires w.len() < 0x8000_0000, v.len() < 0x8000_0000,
             bin_bytes(le, w) + rest == bin_bytes(le, v) + remaining
    ensures v == w, remaining == rest
{
    let a = w32(le, w.len()); let b = w32(le, v.len());
    assert(bin_bytes(le, w) + rest =~= a + (w + rest));
    assert(bin_bytes(le, v) + remaining =~= b + (v + remaining));
    lemma_split_eq(a, w + rest, b, v + remaining);
    lemma_w32_inj(le, w.len(), v.len());
    lemma_split_eq(w, rest, v, remaining);
}
pub proof fn thm_rt_field_begin(le: bool, t: TType, id: i16, rest: Seq<u8>, t2: TType, id2: i16, remaining: Seq<u8>)
    requires bin_field_begin(le, t, id) + rest == bin_field_begin(le, t2, id2) + remaining
    ensures t2 == t, id2 == id, remaining == rest
{
    lemma_split_eq(bin_field_begin(le, t, id), rest, bin_field_begin(le, t2, id2), remaining);
    let x = bin_field_begin(le, t, id); let y = bin_field_begin(le, t2, id2);
    assert(x[0] == y[0]);
    assert(bin_i16(le, id) =~= x.skip(1));
    assert(bin_i16(le, id2) =~= y.skip(1));
    lemma_w16_inj(le, tc(id as int, 16), tc(id2 as int, 16));
}


/// reading back the length word of a length-prefixed value
pub broadcast proof fn lemma_rd32_w32(le: bool, n: nat, rest: Seq<u8>)
    requires n < 0x1_0000_0000
    ensures #[trigger] rd32(le, w32(le, n) + rest) == n
{
    reveal(byte_at); reveal(rd32);
    let s = w32(le, n) + rest;
    let x = n as u64;
    assert(s[0] == w32(le, n)[0] && s[1] == w32(le, n)[1] && s[2] == w32(le, n)[2] && s[3] == w32(le, n)[3]);
    assert(x < 0x1_0000_0000 ==> (x % 256) + ((x / 0x100) % 256) * 0x100 + ((x / 0x1_0000) % 256) * 0x1_0000 + ((x / 0x100_0000) % 256) * 0x100_0000 == x) by (bit_vector);
}
pub broadcast proof fn lemma_rd32_be32(n: nat, rest: Seq<u8>)
    requires n < 0x1_0000_0000
    ensures #[trigger] rd32(false, be32(n) + rest) == n
{ lemma_rd32_w32(false, n, rest); }
pub broadcast proof fn lemma_rd32_le32(n: nat, rest: Seq<u8>)
    requires n < 0x1_0000_0000
    ensures #[trigger] rd32(true, le32(n) + rest) == n
{ lemma_rd32_w32(true, n, rest); }
pub broadcast proof fn lemma_rd32_w32_2(le: bool, n: nat, a: Seq<u8>, b: Seq<u8>)
    requires n < 0x1_0000_0000
    ensures #[trigger] rd32(le, (w32(le, n) + a) + b) == n
{ assert((w32(le, n) + a) + b =~= w32(le, n) + (a + b)); lemma_rd32_w32(le, n, a + b); }
/// the code tables are inverse on the 14 wire types
pub broadcast proof fn lemma_ttype_of_u8(t: TType)
    ensures is_ttype_code(#[trigger] ttype_u8(t)), ttype_of(ttype_u8(t)) == t
{ }
pub broadcast group group_bin { lemma_ttype_of_u8, lemma_rd32_w32, lemma_rd32_be32, lemma_rd32_le32, lemma_rd32_w32_2 }
} // verus!
}
pub use binspec::*;
