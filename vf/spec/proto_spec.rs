// ---------------------------------------------------------------------------------------------
// proto_spec.rs -- the protobuf wire format as mathematics, written from the protobuf encoding
// guide (protobuf.dev/programming-guides/encoding), not from pilota's code:
//   * base-128 varints: 7 payload bits per byte, least significant group first, high bit =
//     continuation; at most 10 bytes; a 10-byte varint must fit 64 bits (its last byte is 0 or 1)
//   * key = varint (field_number << 3 | wire_type), field_number >= 1, key fits 32 bits,
//     wire types 0 VARINT, 1 I64, 2 LEN, 3 SGROUP, 4 EGROUP, 5 I32
//   * an unknown field of wire type w occupies: VARINT one varint; I64 8 bytes; I32 4 bytes; LEN a
//     varint length and that many bytes; SGROUP every field up to the EGROUP key that carries the
//     group's own field number (groups nest, to the recursion limit); a bare EGROUP is malformed
// (the LEB128 helper functions are the same mathematics as in thrift_compact_spec.rs; they are
// repeated here so that the protobuf unit does not depend on the Thrift spec files)
// ---------------------------------------------------------------------------------------------
pub mod pbspec {
use super::*;
use vstd::prelude::*;
verus! {

pub open spec fn leb_terminated(s: Seq<u8>, k: int) -> bool {
    1 <= k <= s.len() && s[k - 1] < 128 && forall|i: int| 0 <= i < k - 1 ==> s[i] >= 128
}
/// position just after the first byte without continuation bit (0 when there is none)
pub open spec fn leb_end(s: Seq<u8>) -> int
    decreases s.len()
{
    if s.len() == 0 { 0 } else if s[0] < 128 { 1 } else { let r = leb_end(s.skip(1)); if r == 0 { 0 } else { 1 + r } }
}
pub proof fn lemma_leb_end_bounds(s: Seq<u8>)
    ensures 0 <= leb_end(s) <= s.len()
    decreases s.len()
{ if s.len() > 0 && s[0] >= 128 { lemma_leb_end_bounds(s.skip(1)); } }
pub proof fn lemma_leb_end_terminated(s: Seq<u8>, k: int)
    requires leb_terminated(s, k)
    ensures leb_end(s) == k
    decreases k
{
    if k == 1 { } else {
        assert(s[0] >= 128);
        let t = s.skip(1);
        assert(t[k - 2] == s[k - 1]);
        assert forall|i: int| 0 <= i < k - 2 implies t[i] >= 128 by { assert(t[i] == s[i + 1]); }
        lemma_leb_end_terminated(t, k - 1);
    }
}
pub proof fn lemma_leb_end_is_terminated(s: Seq<u8>)
    requires leb_end(s) > 0
    ensures leb_terminated(s, leb_end(s))
    decreases s.len()
{
    if s[0] < 128 { } else {
        let t = s.skip(1);
        lemma_leb_end_is_terminated(t);
        lemma_leb_end_bounds(t);
        let k = leb_end(s);
        assert(s[k - 1] == t[k - 2]);
        assert forall|i: int| 0 <= i < k - 1 implies s[i] >= 128 by { if i > 0 { assert(s[i] == t[i - 1]); } }
    }
}
/// no terminator among the first n bytes
pub proof fn lemma_leb_no_end_before(s: Seq<u8>, n: int)
    requires 0 <= n <= s.len(), forall|j: int| 0 <= j < n ==> s[j] >= 128
    ensures leb_end(s) == 0 || leb_end(s) > n
    decreases n
{
    lemma_leb_end_bounds(s);
    if n > 0 {
        let t = s.skip(1);
        assert(s[0] >= 128);
        assert forall|j: int| 0 <= j < n - 1 implies t[j] >= 128 by { assert(t[j] == s[j + 1]); }
        lemma_leb_no_end_before(t, n - 1);
        assert(leb_end(s) == (if leb_end(t) == 0 { 0 } else { 1 + leb_end(t) }));
    }
}
/// value of the first k groups of 7 bits
pub open spec fn leb_val(s: Seq<u8>, k: int) -> nat
    decreases k
{
    if k <= 0 { 0 } else { ((s[0] % 128) as nat) + 128 * leb_val(s.skip(1), k - 1) }
}
pub open spec fn pow128(k: nat) -> nat
    decreases k
{ if k == 0 { 1 } else { 128 * pow128((k - 1) as nat) } }
pub proof fn lemma_pow128_values()
    ensures pow128(0) == 1, pow128(1) == 0x80, pow128(2) == 0x4000, pow128(3) == 0x20_0000, pow128(4) == 0x1000_0000,
            pow128(5) == 0x8_0000_0000, pow128(6) == 0x400_0000_0000, pow128(7) == 0x2_0000_0000_0000,
            pow128(8) == 0x100_0000_0000_0000, pow128(9) == 0x8000_0000_0000_0000,
{ reveal_with_fuel(pow128, 11); }
/// appending one more group
pub proof fn lemma_leb_val_snoc(s: Seq<u8>, k: int)
    requires 0 <= k < s.len()
    ensures leb_val(s, k + 1) == leb_val(s, k) + ((s[k] % 128) as nat) * pow128(k as nat)
    decreases k
{
    if k == 0 {
        assert(leb_val(s.skip(1), 0) == 0);
        assert(leb_val(s, 0) == 0);
        assert(pow128(0) == 1);
        assert(leb_val(s, 1) == (s[0] % 128) as nat + 128 * leb_val(s.skip(1), 0));
        let x = (s[0] % 128) as nat;
        assert(x * pow128(0) == x) by (nonlinear_arith) requires pow128(0) == 1;
    } else {
        let t = s.skip(1);
        lemma_leb_val_snoc(t, k - 1);
        assert(t[k - 1] == s[k]);
        assert(leb_val(s, k + 1) == (s[0] % 128) as nat + 128 * leb_val(t, k));
        assert(leb_val(s, k) == (s[0] % 128) as nat + 128 * leb_val(t, k - 1));
        let a = leb_val(t, k - 1); let b = (s[k] % 128) as nat; let p = pow128((k - 1) as nat); let h = (s[0] % 128) as nat;
        assert(leb_val(t, k) == a + b * p);
        assert(pow128(k as nat) == 128 * p);
        assert(128 * (a + b * p) == 128 * a + b * (128 * p)) by (nonlinear_arith);
        assert(leb_val(s, k + 1) == h + 128 * (a + b * p));
        assert(leb_val(s, k) == h + 128 * a);
        assert(b * (128 * p) == b * pow128(k as nat));
        assert(leb_val(s, k + 1) == leb_val(s, k) + b * pow128(k as nat));
    }
}
pub proof fn lemma_leb_val_bound(s: Seq<u8>, k: int)
    requires 0 <= k <= s.len()
    ensures leb_val(s, k) < pow128(k as nat)
    decreases k
{
    if k > 0 {
        lemma_leb_val_bound(s.skip(1), k - 1);
        let a = leb_val(s.skip(1), k - 1); let p = pow128((k - 1) as nat);
        assert(128 * a + 127 < 128 * p) by (nonlinear_arith) requires a < p;
    }
}
pub proof fn lemma_leb_val_agree(a: Seq<u8>, b: Seq<u8>, k: int)
    requires 0 <= k <= a.len(), k <= b.len(), forall|j: int| 0 <= j < k ==> a[j] == b[j]
    ensures leb_val(a, k) == leb_val(b, k)
    decreases k
{
    if k > 0 {
        assert forall|j: int| 0 <= j < k - 1 implies a.skip(1)[j] == b.skip(1)[j] by { assert(a.skip(1)[j] == a[j + 1]); assert(b.skip(1)[j] == b[j + 1]); }
        lemma_leb_val_agree(a.skip(1), b.skip(1), k - 1);
    }
}

/// the varint the sequence starts with: (value, length)
pub open spec fn pvar(s: Seq<u8>) -> Option<(u64, nat)> {
    let k = leb_end(s);
    if 1 <= k <= 10 && (k == 10 ==> s[9] < 2) { Some((leb_val(s, k) as u64, k as nat)) } else { None }
}
/// a well-formed varint's value fits 64 bits
pub proof fn lemma_pvar_fits(s: Seq<u8>)
    requires pvar(s) is Some
    ensures leb_val(s, leb_end(s)) <= u64::MAX, leb_end(s) <= s.len()
{
    let k = leb_end(s);
    lemma_leb_end_bounds(s);
    lemma_pow128_values();
    if k < 10 {
        lemma_leb_val_bound(s, k);
        assert(pow128(k as nat) <= pow128(9)) by { reveal_with_fuel(pow128, 11); }
    } else {
        lemma_leb_val_bound(s, 9);
        lemma_leb_val_snoc(s, 9);
        assert((s[9] % 128) as nat <= 1);
        assert(((s[9] % 128) as nat) * pow128(9) <= pow128(9)) by (nonlinear_arith) requires (s[9] % 128) as nat <= 1;
    }
}
/// pvar depends only on a prefix that holds the terminator or more than ten bytes
pub proof fn lemma_pvar_prefix(a: Seq<u8>, s: Seq<u8>)
    requires a.len() >= 1, a.len() <= s.len(), a == s.subrange(0, a.len() as int), a.len() > 10 || a[a.len() - 1] < 128
    ensures pvar(a) == pvar(s)
{
    lemma_leb_end_bounds(a); lemma_leb_end_bounds(s);
    if leb_end(a) > 0 {
        lemma_leb_end_is_terminated(a);
        let k = leb_end(a);
        assert forall|i: int| 0 <= i < k implies s[i] == a[i] by { }
        assert(leb_terminated(s, k));
        lemma_leb_end_terminated(s, k);
        lemma_leb_val_agree(a, s, k);
    } else {
        // no terminator in a: then a is longer than 10 bytes, all with continuation bit
        assert forall|j: int| 0 <= j < a.len() implies a[j] >= 128 by {
            if a[j] < 128 {
                // a terminator exists at or before j: leb_end(a) > 0
                lemma_first_terminator(a, j);
            }
        }
        assert forall|j: int| 0 <= j < 11 implies s[j] >= 128 by { assert(s[j] == a[j]); }
        lemma_leb_no_end_before(s, 11);
    }
}
pub proof fn lemma_first_terminator(s: Seq<u8>, j: int)
    requires 0 <= j < s.len(), s[j] < 128
    ensures 1 <= leb_end(s) <= j + 1
    decreases j
{
    if s[0] < 128 { } else {
        assert(j > 0);
        assert(s.skip(1)[j - 1] == s[j]);
        lemma_first_terminator(s.skip(1), j - 1);
    }
}

/// wire type codes
pub open spec fn wt_of(n: u64) -> Option<WireType> {
    if n == 0 { Some(WireType::Varint) } else if n == 1 { Some(WireType::SixtyFourBit) } else if n == 2 { Some(WireType::LengthDelimited) }
    else if n == 3 { Some(WireType::StartGroup) } else if n == 4 { Some(WireType::EndGroup) } else if n == 5 { Some(WireType::ThirtyTwoBit) }
    else { None }
}
/// the field key the sequence starts with: (field number, wire type, length)
pub open spec fn pkey(s: Seq<u8>) -> Option<(u32, WireType, nat)> {
    match pvar(s) {
        None => None,
        Some((v, k)) =>
            if v > 0xffff_ffffu64 || wt_of(v % 8) is None || v / 8 < 1 { None }
            else { Some(((v / 8) as u32, wt_of(v % 8)->Some_0, k)) },
    }
}

/// bytes occupied by the payload of an unknown field of wire type wt and field number tag;
/// d = remaining recursion budget (groups nest)
pub open spec fn pskip(wt: WireType, tag: u32, s: Seq<u8>, d: nat) -> Option<nat>
    decreases d, s.len(), 1nat
{
    if d == 0 { None } else {
        match wt {
            WireType::Varint => match pvar(s) { None => None, Some((_v, k)) => Some(k) },
            WireType::ThirtyTwoBit => if s.len() >= 4 { Some(4nat) } else { None },
            WireType::SixtyFourBit => if s.len() >= 8 { Some(8nat) } else { None },
            WireType::LengthDelimited => match pvar(s) {
                None => None,
                Some((v, k)) => if k + v as nat <= s.len() { Some(k + v as nat) } else { None } },
            WireType::StartGroup => pgroup(tag, s, d),
            WireType::EndGroup => None,
        }
    }
}
/// the fields of a group up to and including the end-group key, which must carry the group's field number
pub open spec fn pgroup(tag: u32, s: Seq<u8>, d: nat) -> Option<nat>
    decreases d, s.len(), 0nat
{
    if d == 0 { None } else {
        match pkey(s) {
            None => None,
            Some((itag, iwt, k)) =>
                if k > s.len() || k < 1 { None }
                else if iwt == WireType::EndGroup { if itag == tag { Some(k) } else { None } }
                else { match pskip(iwt, itag, s.skip(k as int), (d - 1) as nat) {
                    None => None,
                    Some(r) => if k + r > s.len() { None } else {
                        match pgroup(tag, s.skip((k + r) as int), d) { None => None, Some(r2) => Some(k + r + r2) } } } },
        }
    }
}
pub proof fn lemma_pskip_bounds(wt: WireType, tag: u32, s: Seq<u8>, d: nat)
    requires pskip(wt, tag, s, d) is Some
    ensures 1 <= pskip(wt, tag, s, d)->Some_0 <= s.len()
    decreases d, s.len(), 1nat
{
    match wt {
        WireType::Varint | WireType::LengthDelimited => { lemma_leb_end_bounds(s); }
        WireType::StartGroup => lemma_pgroup_bounds(tag, s, d),
        _ => {}
    }
}
pub proof fn lemma_pgroup_bounds(tag: u32, s: Seq<u8>, d: nat)
    requires pgroup(tag, s, d) is Some
    ensures 1 <= pgroup(tag, s, d)->Some_0 <= s.len()
    decreases d, s.len(), 0nat
{
    let (itag, iwt, k) = pkey(s)->Some_0;
    if iwt != WireType::EndGroup {
        let r = pskip(iwt, itag, s.skip(k as int), (d - 1) as nat)->Some_0;
        lemma_pskip_bounds(iwt, itag, s.skip(k as int), (d - 1) as nat);
        lemma_pgroup_bounds(tag, s.skip((k + r) as int), d);
    }
}

} // verus!
}
pub use pbspec::*;
