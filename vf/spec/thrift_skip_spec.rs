// ---------------------------------------------------------------------------------------------
// thrift_skip_spec.rs -- "the bytes of one value of wire type t" for the Thrift binary protocol,
// as a recursive function of the byte sequence (thrift-binary-protocol.md): how many bytes a
// well-formed value of type t occupies at the start of s, or None when s does not start with one
// (truncated, invalid type code, negative length/count, nesting deeper than d).
// ---------------------------------------------------------------------------------------------
pub mod skipspec {
use super::*;
use vstd::prelude::*;
verus! {

/// element / entry count of a container header: a non-negative i32
pub open spec fn bcount(le: bool, s: Seq<u8>) -> Option<nat>
    recommends s.len() >= 4
{ if rd32(le, s) < 0x8000_0000 { Some(rd32(le, s)) } else { None } }

pub open spec fn bskip_val(le: bool, t: TType, s: Seq<u8>, d: nat) -> Option<nat>
    decreases d, s.len(), 2nat
{
    if d == 0 { None } else {
        match t {
            TType::Bool | TType::I8 => if s.len() >= 1 { Some(1nat) } else { None },
            TType::I16 => if s.len() >= 2 { Some(2nat) } else { None },
            TType::I32 => if s.len() >= 4 { Some(4nat) } else { None },
            TType::I64 | TType::Double => if s.len() >= 8 { Some(8nat) } else { None },
            TType::Uuid => if s.len() >= 16 { Some(16nat) } else { None },
            TType::Binary => if s.len() >= 4 && rd32(le, s) < 0x8000_0000 && s.len() >= 4 + rd32(le, s) { Some(4 + rd32(le, s)) } else { None },
            TType::Struct => bskip_fields(le, s, d),
            TType::List | TType::Set =>
                if s.len() >= 5 && is_ttype_code(s[0]) && bcount(le, s.skip(1)) is Some {
                    match bskip_elems(le, ttype_of(s[0]), s.skip(5), bcount(le, s.skip(1))->Some_0, (d - 1) as nat) {
                        Some(r) => Some(5 + r), None => None }
                } else { None },
            TType::Map =>
                if s.len() >= 6 && is_ttype_code(s[0]) && is_ttype_code(s[1]) && bcount(le, s.skip(2)) is Some {
                    match bskip_entries(le, ttype_of(s[0]), ttype_of(s[1]), s.skip(6), bcount(le, s.skip(2))->Some_0, (d - 1) as nat) {
                        Some(r) => Some(6 + r), None => None }
                } else { None },
            TType::Stop | TType::Void => None,
        }
    }
}
/// the fields of a struct up to and including the stop byte
pub open spec fn bskip_fields(le: bool, s: Seq<u8>, d: nat) -> Option<nat>
    decreases d, s.len(), 1nat
{
    if d == 0 || s.len() < 1 { None }
    else if s[0] == 0 { Some(1nat) }
    else if !is_ttype_code(s[0]) || s.len() < 3 { None }
    else {
        match bskip_val(le, ttype_of(s[0]), s.skip(3), (d - 1) as nat) {
            None => None,
            Some(k) => if 3 + k > s.len() { None } else { match bskip_fields(le, s.skip((3 + k) as int), d) { None => None, Some(r) => Some(3 + k + r) } },
        }
    }
}
/// n consecutive values of type t
pub open spec fn bskip_elems(le: bool, t: TType, s: Seq<u8>, n: nat, d: nat) -> Option<nat>
    decreases d, s.len() + n, 3nat
{
    if n == 0 { Some(0nat) } else {
        match bskip_val(le, t, s, d) {
            None => None,
            Some(k) => if k > s.len() { None } else { match bskip_elems(le, t, s.skip(k as int), (n - 1) as nat, d) { None => None, Some(r) => Some(k + r) } },
        }
    }
}
/// n consecutive (key, value) pairs
pub open spec fn bskip_entries(le: bool, kt: TType, vt: TType, s: Seq<u8>, n: nat, d: nat) -> Option<nat>
    decreases d, s.len() + 2 * n, 3nat
{
    if n == 0 { Some(0nat) } else {
        match bskip_val(le, kt, s, d) {
            None => None,
            Some(k) => if k > s.len() { None } else { match bskip_val(le, vt, s.skip(k as int), d) {
                None => None,
                Some(v) => if k + v > s.len() { None } else {
                    match bskip_entries(le, kt, vt, s.skip((k + v) as int), (n - 1) as nat, d) { None => None, Some(r) => Some(k + v + r) } },
            } },
        }
    }
}

/// every value occupies at least one byte and at most the input
pub proof fn lemma_bskip_val_bounds(le: bool, t: TType, s: Seq<u8>, d: nat)
    requires bskip_val(le, t, s, d) is Some
    ensures 1 <= bskip_val(le, t, s, d)->Some_0 <= s.len()
    decreases d, s.len(), 2nat
{
    match t {
        TType::Struct => lemma_bskip_fields_bounds(le, s, d),
        TType::List | TType::Set => {
            lemma_bskip_elems_bounds(le, ttype_of(s[0]), s.skip(5), bcount(le, s.skip(1))->Some_0, (d - 1) as nat);
        }
        TType::Map => {
            lemma_bskip_entries_bounds(le, ttype_of(s[0]), ttype_of(s[1]), s.skip(6), bcount(le, s.skip(2))->Some_0, (d - 1) as nat);
        }
        _ => {}
    }
}
pub proof fn lemma_bskip_fields_bounds(le: bool, s: Seq<u8>, d: nat)
    requires bskip_fields(le, s, d) is Some
    ensures 1 <= bskip_fields(le, s, d)->Some_0 <= s.len()
    decreases d, s.len(), 1nat
{
    if s[0] != 0 {
        let k = bskip_val(le, ttype_of(s[0]), s.skip(3), (d - 1) as nat)->Some_0;
        lemma_bskip_val_bounds(le, ttype_of(s[0]), s.skip(3), (d - 1) as nat);
        lemma_bskip_fields_bounds(le, s.skip((3 + k) as int), d);
    }
}
pub proof fn lemma_bskip_elems_bounds(le: bool, t: TType, s: Seq<u8>, n: nat, d: nat)
    requires bskip_elems(le, t, s, n, d) is Some
    ensures n <= bskip_elems(le, t, s, n, d)->Some_0 <= s.len()
    decreases d, s.len() + n, 3nat
{
    if n > 0 {
        let k = bskip_val(le, t, s, d)->Some_0;
        lemma_bskip_val_bounds(le, t, s, d);
        lemma_bskip_elems_bounds(le, t, s.skip(k as int), (n - 1) as nat, d);
    }
}
pub proof fn lemma_bskip_entries_bounds(le: bool, kt: TType, vt: TType, s: Seq<u8>, n: nat, d: nat)
    requires bskip_entries(le, kt, vt, s, n, d) is Some
    ensures 2 * n <= bskip_entries(le, kt, vt, s, n, d)->Some_0 <= s.len()
    decreases d, s.len() + 2 * n, 3nat
{
    if n > 0 {
        let k = bskip_val(le, kt, s, d)->Some_0;
        lemma_bskip_val_bounds(le, kt, s, d);
        let v = bskip_val(le, vt, s.skip(k as int), d)->Some_0;
        lemma_bskip_val_bounds(le, vt, s.skip(k as int), d);
        lemma_bskip_entries_bounds(le, kt, vt, s.skip((k + v) as int), (n - 1) as nat, d);
    }
}

} // verus!
}
pub use skipspec::*;
