// ---------------------------------------------------------------------------------------------
// varint_spec.rs -- assumed contract of the dependency integer-encoding 4.0.2 (trusted base A3).
// The concrete statements (encode_var writes uleb(zz(v)) / uleb(v); required_space is its length;
// decode_var(encode_var(v) ++ rest) == (v, len); decode_var never reads past a terminated prefix
// of <= 10 bytes) are proved bit-precisely on the real crate by the Kani harnesses `a3_varint_*`.
// ---------------------------------------------------------------------------------------------
pub mod vi {
use super::*;
use vstd::prelude::*;
use integer_encoding::VarInt;
verus! {

#[verifier::external_trait_specification]
#[verifier::external_trait_extension(VarIntSpec via VarIntSpecImpl)]
pub trait ExVarInt: Sized + Copy {
    type ExternalTraitSpecificationFor: VarInt;
    /// canonical encoding of the value
    spec fn venc(self) -> Seq<u8>;
    /// value decoded from the LEB128 payload n (zig-zag undone for signed types, truncated to the type)
    spec fn vconv(n: nat) -> Self;
    fn required_space(self) -> (r: usize)
        ensures r == self.venc().len();
    /// documented requirement (debug_assert + indexing): the slice holds required_space() bytes
    fn encode_var(self, dst: &mut [u8]) -> (r: usize)
        requires old(dst)@.len() >= self.venc().len()
        ensures r == self.venc().len(), final(dst)@.len() == old(dst)@.len(), final(dst)@.take(r as int) == self.venc();
    fn decode_var(src: &[u8]) -> (r: Option<(Self, usize)>)
        ensures match r {
            Some((v, k)) => k == leb_end(src@) && 1 <= k <= 10 && v == Self::vconv(leb_val(src@, k as int)),
            None => leb_end(src@) == 0 || leb_end(src@) > 10,
        };
}

impl VarIntSpecImpl for i16 {
    open spec fn venc(self) -> Seq<u8> { cp_i16(self) }
    uninterp spec fn vconv(n: nat) -> i16;
}
impl VarIntSpecImpl for i32 {
    open spec fn venc(self) -> Seq<u8> { cp_i32(self) }
    uninterp spec fn vconv(n: nat) -> i32;
}
impl VarIntSpecImpl for i64 {
    open spec fn venc(self) -> Seq<u8> { cp_i64(self) }
    uninterp spec fn vconv(n: nat) -> i64;
}
impl VarIntSpecImpl for u32 {
    open spec fn venc(self) -> Seq<u8> { uleb(self as nat) }
    uninterp spec fn vconv(n: nat) -> u32;
}

/// every encoding is 1..=10 bytes (64 payload bits), and size_of-derived maximum covers it
pub broadcast axiom fn axiom_venc_len<VI: VarInt>(v: VI)
    ensures 1 <= (#[trigger] v.venc()).len() <= 10, v.venc().len() <= (vstd::layout::size_of::<VI>() * 8 + 7) / 7,
            leb_terminated(v.venc(), v.venc().len() as int), leb_end(v.venc()) == v.venc().len();
/// decoding the payload of an encoding gives the value back
pub broadcast axiom fn axiom_vconv_venc<VI: VarInt>(v: VI, rest: Seq<u8>)
    ensures VI::vconv(#[trigger] leb_val(v.venc() + rest, v.venc().len() as int)) == v;

/// every implementor of VarInt is a primitive integer of at most 8 bytes
pub broadcast axiom fn axiom_varint_size<VI: VarInt>()
    ensures 1 <= #[trigger] vstd::layout::size_of::<VI>() <= 8;
pub broadcast group group_varint { axiom_venc_len, axiom_vconv_venc, axiom_varint_size }

// For the four types pilota instantiates, the length part of axiom_venc_len is a theorem of the spec:
pub proof fn thm_venc_len_i16(v: i16) ensures 1 <= cp_i16(v).len() <= 3
{ lemma_uleb_len(zz(v as int)); lemma_uleb_len_bound(zz(v as int)); }
pub proof fn thm_venc_len_i32(v: i32) ensures 1 <= cp_i32(v).len() <= 5
{ lemma_uleb_len(zz(v as int)); lemma_uleb_len_bound(zz(v as int)); }
pub proof fn thm_venc_len_i64(v: i64) ensures 1 <= cp_i64(v).len() <= 10
{ lemma_uleb_len(zz(v as int)); lemma_uleb_len_bound(zz(v as int)); }
pub proof fn thm_venc_len_u32(v: u32) ensures 1 <= uleb(v as nat).len() <= 5
{ lemma_uleb_len(v as nat); lemma_uleb_len_bound(v as nat); }

} // verus!
}
pub use vi::*;
