// ---------------------------------------------------------------------------------------------
// thrift_compact_skip_spec.rs -- "the bytes of one value of wire type t" for the Thrift COMPACT
// protocol, as a recursive function of the byte sequence (thrift-compact-protocol.md): how many
// bytes a well-formed value of type t occupies at the start of s, or None when s does not start
// with one (truncated, varint longer than the type allows, invalid type nibble, count that is not
// a non-negative i32, field-id delta that leaves the i16 range, nesting deeper than d).
//
//  * i16/i32/i64: one ULEB128 varint of at most 3/5/10 bytes (zig-zag inside); double: 8 bytes;
//    uuid: 16 bytes; i8: 1 byte; binary: varint length (at most 5 bytes) + that many bytes
//  * bool: as a struct field the value lives in the field header (type nibble 1/2): 0 bytes
//    (`pb`: a bool is pending from the header); as a container element one byte, 1 or 2
//  * struct: field headers `dddd tttt` (delta 1..15, id = previous id + delta) or `0000 tttt`
//    followed by a zig-zag varint id; terminated by a byte whose type nibble is 0
//  * list/set: `ssss tttt` with size < 15, or `1111 tttt` + varint size; then the elements
//  * map: a single 0 byte (varint 0) when empty; else varint size, `kkkk vvvv`, then the entries
//
// Integers decoded from varints (sizes, lengths, long-form field ids) are "the value
// integer-encoding decodes" (cp_varint_val, assumption A3: equal to v for the encoding of v).
// ---------------------------------------------------------------------------------------------
pub mod cskipspec {
use super::*;
use vstd::prelude::*;
verus! {

/// length of the varint of at most `max` bytes the sequence starts with
pub open spec fn cvar(s: Seq<u8>, max: nat) -> Option<nat> {
    if 1 <= leb_end(s) <= max && leb_end(s) <= s.len() { Some(leb_end(s) as nat) } else { None }
}
/// element / entry count carried by a varint: must be a non-negative i32
pub open spec fn ccount(s: Seq<u8>) -> Option<nat> {
    if cp_varint_val::<u32>(s) < 0x8000_0000u32 { Some(cp_varint_val::<u32>(s) as nat) } else { None }
}
/// wire type named by a type nibble
pub open spec fn cnib(n: u8) -> TType { ctype_ttype(ctype_of(n)) }

/// length of a field header that is not a stop byte (s[0] % 16 in 1..=13), given the previous field id
pub open spec fn cfield_hdr_len(s: Seq<u8>, last: int) -> Option<nat>
    recommends s.len() >= 1
{
    if s[0] / 16 != 0 { if last + (s[0] / 16) as int > 0x7fff { None } else { Some(1nat) } }
    else { match cvar(s.skip(1), 3) { None => None, Some(k) => Some(1 + k) } }
}
/// the field id that header carries
pub open spec fn cfield_id(s: Seq<u8>, last: int) -> int
    recommends s.len() >= 1
{
    if s[0] / 16 != 0 { last + (s[0] / 16) as int } else { cp_varint_val::<i16>(s.skip(1)) as int }
}
/// header of a list or set: (header length, element count)
pub open spec fn ccoll_hdr(s: Seq<u8>) -> Option<(nat, nat)> {
    if s.len() < 1 || s[0] % 16 > 13 { None }
    else if s[0] / 16 != 15 { Some((1nat, (s[0] / 16) as nat)) }
    else { match cvar(s.skip(1), 5) { None => None, Some(k) => match ccount(s.skip(1)) { None => None, Some(n) => Some((1 + k, n)) } } }
}

/// header of a map: (header length, entry count); an empty map is the single varint 0
pub open spec fn cmap_hdr(s: Seq<u8>) -> Option<(nat, nat)> {
    match cvar(s, 5) {
        None => None,
        Some(k) =>
            if cp_varint_val::<u32>(s) == 0 { Some((k, 0nat)) }
            else if ccount(s) is None || s.len() <= k || s[k as int] % 16 > 13 || s[k as int] / 16 > 13 { None }
            else { Some((k + 1, ccount(s)->Some_0)) },
    }
}
/// values without nested values (opaque: revealed where such a value is taken apart)
#[verifier::opaque]
pub open spec fn cprim(t: TType, s: Seq<u8>, pb: bool) -> Option<nat> {
    match t {
        TType::Bool => if pb { Some(0nat) } else if s.len() >= 1 && (s[0] == 1 || s[0] == 2) { Some(1nat) } else { None },
        TType::I8 => if s.len() >= 1 { Some(1nat) } else { None },
        TType::I16 => cvar(s, 3),
        TType::I32 => cvar(s, 5),
        TType::I64 => cvar(s, 10),
        TType::Double => if s.len() >= 8 { Some(8nat) } else { None },
        TType::Uuid => if s.len() >= 16 { Some(16nat) } else { None },
        TType::Binary => match cvar(s, 5) {
            None => None,
            Some(k) => if k + cp_varint_val::<u32>(s) as nat <= s.len() { Some(k + cp_varint_val::<u32>(s) as nat) } else { None } },
        _ => None,
    }
}

pub open spec fn cskip_val(t: TType, s: Seq<u8>, d: nat, pb: bool) -> Option<nat>
    decreases d, s.len(), 2nat
{
    if d == 0 { None } else {
        match t {
            TType::Struct => cskip_fields(s, d, 0),
            TType::List | TType::Set => match ccoll_hdr(s) {
                None => None,
                Some((hl, n)) => if hl > s.len() { None } else {
                    match cskip_elems(cnib(s[0] % 16), s.skip(hl as int), n, (d - 1) as nat) { Some(r) => Some(hl + r), None => None } } },
            TType::Map => match cmap_hdr(s) {
                None => None,
                Some((hl, n)) => if hl > s.len() || hl < 1 { None } else {
                    match cskip_entries(cnib(s[hl - 1] / 16), cnib(s[hl - 1] % 16), s.skip(hl as int), n, (d - 1) as nat) {
                        Some(r) => Some(hl + r), None => None } } },
            TType::Stop | TType::Void => None,
            _ => cprim(t, s, pb),
        }
    }
}
/// the fields of a struct up to and including the stop byte; `last` is the id of the previous field
pub open spec fn cskip_fields(s: Seq<u8>, d: nat, last: int) -> Option<nat>
    decreases d, s.len(), 1nat
{
    if d == 0 || s.len() < 1 { None }
    else if s[0] % 16 == 0 { Some(1nat) }
    else if s[0] % 16 > 13 { None }
    else {
        match cfield_hdr_len(s, last) {
            None => None,
            Some(hl) => if hl > s.len() { None } else {
                match cskip_val(cnib(s[0] % 16), s.skip(hl as int), (d - 1) as nat, s[0] % 16 == 1 || s[0] % 16 == 2) {
                    None => None,
                    Some(k) => if hl + k > s.len() { None } else {
                        match cskip_fields(s.skip((hl + k) as int), d, cfield_id(s, last)) { None => None, Some(r) => Some(hl + k + r) } } } },
        }
    }
}
/// n consecutive container elements of type t
pub open spec fn cskip_elems(t: TType, s: Seq<u8>, n: nat, d: nat) -> Option<nat>
    decreases d, s.len() + n, 3nat
{
    if n == 0 { Some(0nat) } else {
        match cskip_val(t, s, d, false) {
            None => None,
            Some(k) => if k > s.len() { None } else { match cskip_elems(t, s.skip(k as int), (n - 1) as nat, d) { None => None, Some(r) => Some(k + r) } },
        }
    }
}
/// n consecutive (key, value) pairs
pub open spec fn cskip_entries(kt: TType, vt: TType, s: Seq<u8>, n: nat, d: nat) -> Option<nat>
    decreases d, s.len() + 2 * n, 3nat
{
    if n == 0 { Some(0nat) } else {
        match cskip_val(kt, s, d, false) {
            None => None,
            Some(k) => if k > s.len() { None } else { match cskip_val(vt, s.skip(k as int), d, false) {
                None => None,
                Some(v) => if k + v > s.len() { None } else {
                    match cskip_entries(kt, vt, s.skip((k + v) as int), (n - 1) as nat, d) { None => None, Some(r) => Some(k + v + r) } },
            } },
        }
    }
}

/// a value that is not a pending bool occupies at least one byte and at most the input
pub proof fn lemma_cskip_val_bounds(t: TType, s: Seq<u8>, d: nat, pb: bool)
    requires cskip_val(t, s, d, pb) is Some
    ensures cskip_val(t, s, d, pb)->Some_0 <= s.len(), !(pb && t == TType::Bool) ==> 1 <= cskip_val(t, s, d, pb)->Some_0
    decreases d, s.len(), 2nat
{
    reveal(cprim);
    match t {
        TType::Struct => lemma_cskip_fields_bounds(s, d, 0),
        TType::List | TType::Set => {
            let (hl, n) = ccoll_hdr(s)->Some_0;
            lemma_cskip_elems_bounds(cnib(s[0] % 16), s.skip(hl as int), n, (d - 1) as nat);
        }
        TType::Map => {
            let (hl, n) = cmap_hdr(s)->Some_0;
            lemma_cskip_entries_bounds(cnib(s[hl - 1] / 16), cnib(s[hl - 1] % 16), s.skip(hl as int), n, (d - 1) as nat);
        }
        _ => {}
    }
}
pub proof fn lemma_cskip_fields_bounds(s: Seq<u8>, d: nat, last: int)
    requires cskip_fields(s, d, last) is Some
    ensures 1 <= cskip_fields(s, d, last)->Some_0 <= s.len()
    decreases d, s.len(), 1nat
{
    if s[0] % 16 != 0 {
        let hl = cfield_hdr_len(s, last)->Some_0;
        let pb = s[0] % 16 == 1 || s[0] % 16 == 2;
        let k = cskip_val(cnib(s[0] % 16), s.skip(hl as int), (d - 1) as nat, pb)->Some_0;
        lemma_cskip_val_bounds(cnib(s[0] % 16), s.skip(hl as int), (d - 1) as nat, pb);
        lemma_cskip_fields_bounds(s.skip((hl + k) as int), d, cfield_id(s, last));
    }
}
pub proof fn lemma_cskip_elems_bounds(t: TType, s: Seq<u8>, n: nat, d: nat)
    requires cskip_elems(t, s, n, d) is Some
    ensures n <= cskip_elems(t, s, n, d)->Some_0 <= s.len()
    decreases d, s.len() + n, 3nat
{
    if n > 0 {
        let k = cskip_val(t, s, d, false)->Some_0;
        lemma_cskip_val_bounds(t, s, d, false);
        lemma_cskip_elems_bounds(t, s.skip(k as int), (n - 1) as nat, d);
    }
}
pub proof fn lemma_cskip_entries_bounds(kt: TType, vt: TType, s: Seq<u8>, n: nat, d: nat)
    requires cskip_entries(kt, vt, s, n, d) is Some
    ensures 2 * n <= cskip_entries(kt, vt, s, n, d)->Some_0 <= s.len()
    decreases d, s.len() + 2 * n, 3nat
{
    if n > 0 {
        let k = cskip_val(kt, s, d, false)->Some_0;
        lemma_cskip_val_bounds(kt, s, d, false);
        let v = cskip_val(vt, s.skip(k as int), d, false)->Some_0;
        lemma_cskip_val_bounds(vt, s.skip(k as int), d, false);
        lemma_cskip_entries_bounds(kt, vt, s.skip((k + v) as int), (n - 1) as nat, d);
    }
}

} // verus!
}
pub use cskipspec::*;
