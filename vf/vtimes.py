#!/usr/bin/env python3
# usage: vtimes.py file.rs [extra verus args]   -> summary + slowest + failures
import json,subprocess,sys
r=subprocess.run(['/verif/vf/runverus.sh',sys.argv[1],'--output-json','--time']+sys.argv[2:],capture_output=True,text=True)
try: d=json.loads(r.stdout)
except Exception: print(r.stderr[-3000:]); sys.exit(1)
print(d['verification-results'])
rows=[]
for m in d['times-ms']['smt']['smt-run-module-times']:
    for f in m.get('function-breakdown',[]): rows.append((f['time'],f['rlimit'],f['function'],f['success']))
rows.sort(reverse=True)
for x in rows[:8]: print(x)
print('FAILED:',[x[2] for x in rows if not x[3]])
