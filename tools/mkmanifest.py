#!/usr/bin/env python3
"""Regenerates /verif/MANIFEST.json from the per-property texts below (run by hand after editing)."""
import json, os, sys
HERE = os.path.dirname(os.path.dirname(os.path.abspath(__file__)))
sys.path.insert(0, HERE)
from props import PROPS

NA = {
 'C02': 'quantifies over all IDL programs; the subject is Rust text emitted by format! templates in pilota-build, which no function-level contract can give a meaning to and neither Verus nor Kani can ingest (Kani on a 2-field generated struct did not finish in 10 min); the runtime calls it relies on are proved under C01/C04/C07',
 'C08': 'entirely about emitted decode bodies under all writer schemas (programs x programs): same reason as C02',
 'C13': 'the mechanism (__pilota_begin_ptr/__pilota_offset/__pilota_fields_num) lives in emitted code: same reason as C02',
 'C14': 'oracle is rustc type-checking emitted text for all IDL programs and builder configurations: not a function contract',
 'C15': 'nom combinator closures over &str: Verus has no str byte reasoning nor higher-order parser combinators; needs a grammar-level inverse, not a per-function contract',
 'C16': 'same code as C15; the known panic sits in an anonymous closure that cannot carry a contract; stack depth bounds are not expressible in Verus or Kani',
 'C17': '2-safety over rayon schedules and per-process hash seeds: Kani has no threads, Verus would need salsa/DashMap/rayon under its permission types',
 'C19': 'heap liveness (absence of leaks) is not a functional contract: Verus proves no use-after-free, not absence of leaks, and Kani 0.68 does not expose CBMC leak checks; the leaking construct is emitted code',
 'C20': 'two independently emitted texts compared with the IDL literal: program-quantified and string-valued (C02 reason)',
}
TEXT = {
 'C01': ('Every write_*/read_* primitive of the binary, little-endian binary and compact protocols (both output buffers, zero-copy flag symbolic) and the compact state machine (field-id stack, pending bool) is verified by Verus against byte-level spec functions written from the Apache protocol documents, and per-primitive round-trip theorems (any reader meeting the reader contract on writer output followed by arbitrary data returns the value and leaves the rest) are proved over those contracts for all values. The unchecked binary codec is proved per primitive by complete Kani harnesses on the real code.',
         'Dependencies enter through assumed contracts listed in evidence.trusted_base (several re-proved by Kani on the real dependency). The tree-level induction over whole value trees is not mechanised: the property is decided per primitive and per protocol-state transition. Generated code is not covered.'),
 'C03': ('The writer contracts of C01 are stated against spec functions written from the Apache specifications (an independent decoder in mathematical form, with injectivity/prefix-freeness lemmas proved), and the reader contracts are relational and admit every legal alternative form (long-form compact field header, any non-zero binary bool byte, one-byte empty map, non-canonical message-header bytes); type codes outside the specification give Err by the TryFrom contracts (total case analysis).',
         'ApplicationException encode/decode is not under contract yet. Same trusted base as C01.'),
 'C04': ('Every *_len of TBinaryProtocol (both byte orders), of TCompactOutputProtocol (stateful: same field-id stack transitions and the same short/long header choice as the writer) and of the unchecked output protocol is proved equal to the length of the spec encoding the matching writer is proved to append.',
         'Closure-taking helpers of TLengthProtocolExt/TOutputProtocolExt and generated size() bodies are not covered.'),
 'C05': ('Complete Kani harnesses on the real macro-generated scalar codecs (bool, int32, int64, uint32, uint64, sint32, sint64, fixed32, sfixed32, float, fixed64, sfixed64, double), full value domain, symbolic tag in 1..2^29-1: bytes == key ++ payload of the protobuf encoding document, encoded_len == bytes written, merge(encode(v)) == v consuming exactly the encoding with arbitrary data following; varint encode/decode/len for all u64.',
         'Loop-free or width-bounded (<= 10 iterations, unwinding assertions on) harnesses over full domains are complete proofs. format! on error paths is stubbed. Strings, bytes, repeated, packed, maps, messages, groups and generated messages are not covered.'),
 'C06': ('Kani: the scalar harnesses of C05 compare the bytes produced with the encoding prescribed by the declared type (ZigZag for sint32/sint64, little-endian fixed widths, 64-bit sign extension of negative int32, wire type per type) computed by an independent reference written from the protobuf encoding document. Verus (unit pbgen): the two match tables of pilota-build that select the codec module per .proto scalar type (lower_ty in the parser, ty_module in the code generator) are extracted as verbatim fragments and proved to select, for all 15 scalar types, the module the language guide prescribes (this found G7, fixed).',
         'Repeated/map/oneof positions of the generator, map entry layout and generated message bodies are not covered (emitted text). packed+unpacked acceptance only by a bounded harness (thorough tier).'),
 'C07': ('The recursive default skipper and the async default skipper are each verified by Verus as a generic function over any reader meeting a reader contract, against a recursive grammar of Thrift binary values (bskip_val: structs, lists, sets, maps nested to the depth limit): Ok(n) <=> the input starts with a well-formed value of that wire type occupying n bytes, and exactly those bytes are consumed; Err <=> it does not; depth 0 => Err; termination with depth as measure. Refinement obligations prove TBinaryProtocol<&mut Bytes> and TAsyncBinaryProtocol<R> (both byte orders) implement those reader contracts with their real bodies. The async skipper is verified a second time over the compact reader contract, against the compact grammar, with the refinement obligation for TAsyncCompactProtocol<R>. The compact reader used to inherit the fixed-width skipper (G4, fixed): its own skipper is verified against a recursive grammar of compact-protocol values (cskip_val) with the reader state (field-id stack, last id, pending bool) restored; the missing uuid arm of the async skipper (G5) was found by this proof and is fixed.',
         'The iterative unchecked skipper (unsafe pointer reads, SmallVec stack) is not under contract. "Whatever follows is decoded as if the value had never been there" holds for stateless binary readers by the consumption equality; for the compact reader state it is not decided.'),
 'C09': ('All sync and async readers of the three safe protocols, both default skippers and the shared async length-prefixed read are verified with no precondition on buffer content: Verus discharges every panic!, expect/unwrap, index, arithmetic-overflow and dependency panic precondition (Bytes::split_to, Buf::advance, copy_to_slice) in the extracted bodies, every loop has a decreases clause, and every allocation site carries an obligation bounding the request by the bytes available (plus at most 64 KiB for stream readers). Err-side contracts state that an input without a complete value is rejected.',
         'Generated decoders (container preallocation from the wire count in emitted code) are outside reach: emitted text. Stack depth is bounded by the depth argument of the skippers only; generated recursive decoders are not covered.'),
 'C10': ('Verus (unit prost, real bodies of pilota/src/prost/encoding.rs): decode_varint (dispatch + slow-path loop, whose shift-and-or accumulation is proved equal to the base-128 value), decode_key, check_wire_type, WireType::try_from and the DecodeContext recursion budget are verified functionally and totally: Ok(v) <=> the input starts with a well-formed varint / key per the protobuf encoding guide, v is its value, exactly its bytes are consumed, no panic on any input. skip_field (rule D18) is verified against a recursive grammar of unknown fields (pskip/pgroup): Ok <=> the input starts with a well-formed field payload (groups closed by the end-group key of their own field number, nested to the recursion budget; a length prefix beyond the input is rejected before advancing), exactly its bytes are consumed, termination with the budget as measure. The unsafe unrolled decode_varint_slice is proved by complete Kani harnesses on every input of up to 11 bytes (bounds, value, length); decode_varint on non-contiguous buffers by pb_varint_chain.',
         'merge_loop (FnMut closure), bytes/string/message/group/map merge, Message::merge_length_delimited, wrappers in types.rs and generated merge_field are not decided.'),
 'C11': ('Complete Kani harnesses, one per primitive, on the real unchecked writer (BytesMut variant) and reader: exact-size window between guard bytes, symbolic cursor; bytes written == Thrift binary encoding (the spec the checked writer is verified against), reported length == bytes written == cursor advance, nothing outside the window touched; reader values == binary decoding, cursor advanced by the exact size.',
         'LinkedBytes variant with zero-copy insertion, header readers, length-prefixed readers, get_bytes and the iterative skipper are not under a harness.'),
 'C12': ('The async readers of the binary, little-endian binary and compact protocols and the async skipper are extracted (rule D8: async fn -> fn, awaited tokio reads as atomic calls with the delivery contract of tokio) and verified by Verus against the same spec functions and the same contract text as the in-memory readers, so both refine one decoding relation: same value on success, Err exactly when the in-memory reader errs, consumption == length of the decoded value (never reads past it). The async and in-memory skippers are verified against the same value grammar.',
         'The delivery-schedule quantifier is removed by assumption A7 (tokio AsyncReadExt returns the next bytes in order regardless of chunking/Pending), not proved. Generated decode_async is not covered (emitted text).'),
 'C18': ('Kani: the scalar harnesses of C05 merge into an arbitrary pre-existing value: the result is the decoded value for every old value (last occurrence wins), for all 13 scalar kinds. Verus (unit prost): skip_field, the function every generated merge_field hands an undeclared field to, consumes exactly the bytes of that field for every wire type including nested groups (grammar pskip/pgroup), so what follows an unknown field is decoded as if it were not there.',
         'Repeated accumulation only by a bounded harness (thorough tier). Map, oneof and embedded-message merge semantics, Message::merge, and the dispatch of unknown tags to skip_field inside generated merge_field (emitted text) are not decided.'),
}

def main():
    claimed = sorted(PROPS)
    checks = []
    for pid in claimed:
        lt, ln = TEXT[pid]
        eng = 'verus+kani' if PROPS[pid].get('verus') and PROPS[pid].get('kani') else ('verus' if PROPS[pid].get('verus') else 'kani')
        checks.append(dict(property_id=pid, quick_cmd='./check %s --tier quick' % pid, thorough_cmd='./check %s --tier thorough' % pid,
                           evidence_file='/verif/evidence/%s.json' % pid, replay_cmd_template='./check %s --replay {path}' % pid, engine=eng,
                           level_claimed=dict(category='proof', text=lt, design_ref='DESIGN.md section 5 ' + pid),
                           level_note=ln + ' Scope: runtime crate only.',
                           technique='contract-based deductive verification: Verus on mechanically extracted real functions' + ('; Kani/CBMC complete leaf harnesses on the real crate' if PROPS[pid].get('kani') else '')))
    m = dict(version=1, setup_cmd='./setup.sh',
             hooks=dict(guard='pilota_verif', enable='none needed: the checks read /repo sources and call only the public API of the unmodified crate',
                        baseline_off_cmd='cd /repo && (cargo nextest run --workspace --no-fail-fast --test-threads 8 --offline || cargo test --workspace --no-fail-fast --offline)',
                        source_commits=[], add_only=True),
             engines=[dict(name='verus', path='vf/', serves_properties=[p for p in claimed if PROPS[p].get('verus')],
                           kind_free_text='Verus 0.2026.09.13 on functions extracted mechanically from /repo on every run (vf/extract.py, rules D1..D16), contracts in vf/units/*.vu, spec functions in vf/spec/*.rs'),
                      dict(name='kani', path='kn/', serves_properties=[p for p in claimed if PROPS[p].get('kani')],
                           kind_free_text='Kani 0.68/CBMC on the real pilota crate by path dependency: complete leaf harnesses and labelled bounded stand-ins')],
             checks=checks,
             notes='Genuine defects found and repaired by fix: commits in /repo are listed in known_findings.txt (fixed:), recorded findings as known:.',
             not_applicable=[dict(property_id=k, reason=v) for k, v in sorted(NA.items()) if k not in claimed])
    json.dump(m, open(os.path.join(HERE, 'MANIFEST.json'), 'w'), indent=1)
    print('claimed', claimed)

main()
