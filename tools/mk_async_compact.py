#!/usr/bin/env python3
"""Regenerates vf/units/_async_compact_reader.vu from vf/units/_compact_reader.vu: the async compact
reader (TAsyncCompactProtocol) is given exactly the contracts of the sync one (C12)."""
import re
s=open('/verif/vf/units/_compact_reader.vu').read()
a=s.index("%in /impl TCompactInputProtocol<&mut Bytes>/")
b=s.index("%raw\n// ---- round trip of a compact varint")
body=s[a:b]
body=body.replace("%in /impl TCompactInputProtocol<&mut Bytes>/ => impl<'a> TCompactInputProtocol<&'a mut Bytes>","%in /impl<R> TAsyncCompactProtocol<R> where R: AsyncRead \\+ Unpin \\+ Send/ => impl<R: AsyncReaderV> TAsyncCompactProtocol<R>")
body=body.replace("%in /impl TInputProtocol for TCompactInputProtocol<&mut Bytes>/ => impl<'a> TCompactInputProtocol<&'a mut Bytes>","%in /impl<R> TAsyncInputProtocol for TAsyncCompactProtocol<R> where R: AsyncRead \\+ Unpin \\+ Send/ => impl<R: AsyncReaderV> TAsyncCompactProtocol<R>")
body=re.sub(r'(?m)^%fn (\w+)$', r'%fn \1 async', body)
body=body.replace("%fn read_varint async","%fn read_varint_async async")
body=body.replace("(*self.trans).rem()","self.reader.stream()")
body=body.replace("self.trans.read_u8()?","self.reader.read_u8()?")
body=body.replace("            @new.pending_read_bool_field_identifier == @old.pending_read_bool_field_identifier,\n","")
out="""# GENERATED from _compact_reader.vu by tools/mk_async_compact.py: the async twin gets the same contracts
%file pilota/src/thrift/compact.rs
%item const COMPACT_BOOLEAN_TRUE exec_const=1u8
%item const COMPACT_BOOLEAN_FALSE exec_const=2u8
%item struct TAsyncCompactProtocol
%raw
pub trait InP { spec fn inp(&self) -> Seq<u8>; }
impl<R: AsyncReaderV> InP for TAsyncCompactProtocol<R> { open spec fn inp(&self) -> Seq<u8> { self.reader.stream() } }
pub open spec fn rstate_eq<R>(a: &TAsyncCompactProtocol<R>, b: &TAsyncCompactProtocol<R>) -> bool {
    a.last_read_field_id == b.last_read_field_id && a.read_field_id_stack@ == b.read_field_id_stack@
        && a.pending_read_bool_value == b.pending_read_bool_value
}
%endraw
%use _cpvarint.vu
"""+body
extra="""%fn read_string async
    ensures res is Ok ==> ({ let n = cp_varint_val::<u32>(@old.inp()); cp_varint_at::<u32>(@old.inp(), 5, n) && string_bytes(&res->Ok_0).len() == n
                && @old.inp().skip(leb_end(@old.inp())) =~= string_bytes(&res->Ok_0) + @new.inp() }),
            res is Err ==> (cp_no_varint(@old.inp(), 5) || cp_varint_val::<u32>(@old.inp()) > @old.inp().len() - leb_end(@old.inp())),
            rstate_eq(final(self), old(self)),
    %fsubst? /Ok\\(unsafe \\{ String::from_utf8_unchecked\\((\\w+)\\) \\}\\)/ => Ok(vstring_from_utf8_unchecked(\\1))
    %fsubst? /String::from_utf8\\((\\w+)\\)\\.map_err\\(\\|\\w+\\| \\{(?s:.*?)\\n\\s*\\}\\)/ => vstring_from_utf8_checked(\\1)
"""
# the sync unit has its own read_string entry (same contract, different body rewrites): drop it, use `extra`
a=out.index("%fn read_string async")
b=out.index("%fn", a+5)
out=out[:a]+out[b:]
out=out.replace("%fn read_list_begin async", extra+"%fn read_list_begin async",1)
a=out.index("%fn read_bytes_vec async")
b=out.index("%fn", a+5)
out=out[:a]+out[a:b].rstrip()+"\n    %fsubst /rw_ext::read_exact_vec/ => read_exact_vec\n"+out[b:]
open('/verif/vf/units/_async_compact_reader.vu','w').write(out)
