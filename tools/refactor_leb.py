import re
p='/verif/vf/units/_compact_reader.vu'
s=open(p).read()
# definitions
s=s.replace('''pub open spec fn cp_varint_at<VI: VarInt>(s: Seq<u8>, max: nat, k: int, v: VI) -> bool {
    1 <= k <= max && k <= 10 && leb_terminated(s, k) && v == VI::vconv(leb_val(s, k))
}
pub open spec fn cp_no_varint(s: Seq<u8>, max: nat) -> bool {
    forall|k: int| 1 <= k <= max ==> !leb_terminated(s, k)
}''','''/// the input starts with a terminated varint (ending at byte leb_end(s)) within the limit `max`, decoding to v
pub open spec fn cp_varint_at<VI: VarInt>(s: Seq<u8>, max: nat, v: VI) -> bool {
    1 <= leb_end(s) <= max && leb_end(s) <= 10 && leb_end(s) <= s.len() && v == VI::vconv(leb_val(s, leb_end(s)))
}
/// value of the varint the input starts with
pub open spec fn cp_varint_val<VI: VarInt>(s: Seq<u8>) -> VI { VI::vconv(leb_val(s, leb_end(s))) }
pub open spec fn cp_no_varint(s: Seq<u8>, max: nat) -> bool { leb_end(s) == 0 || leb_end(s) > max }''')
s=s.replace("/// the input starts with a terminated varint of k bytes, k within the limit `max`, decoding to v\n","")
# simple readers
s=re.sub(r"exists\|k: int\| cp_varint_at::<(\w+)>\(@old\.inp\(\), ([^,]+), k, res->Ok_0\) && @new\.inp\(\) == @old\.inp\(\)\.skip\(k\)",
         r"cp_varint_at::<\1>(@old.inp(), \2, res->Ok_0) && @new.inp() == @old.inp().skip(leb_end(@old.inp()))", s)
# collection begin (3 places)
s=s.replace("""(h / 16 == 15 ==> exists|k: int, c: u32| cp_varint_at::<u32>(@old.inp().skip(1), 5, k, c)
                        && (c < 0x8000_0000 ==> n == c as usize) && @new.inp() =~= @old.inp().skip(1 + k)) }),""",
"""(h / 16 == 15 ==> ({ let c = cp_varint_val::<u32>(@old.inp().skip(1)); cp_varint_at::<u32>(@old.inp().skip(1), 5, c)
                        && (c < 0x8000_0000 ==> n == c as usize) && @new.inp() =~= @old.inp().skip(1 + leb_end(@old.inp().skip(1))) })) }),""")
s=s.replace("""(h / 16 == 15 ==> exists|k: int, c: u32| cp_varint_at::<u32>(@old.inp().skip(1), 5, k, c)
                        && (c < 0x8000_0000 ==> l.size == c as usize) && @new.inp() =~= @old.inp().skip(1 + k)) }),""",
"""(h / 16 == 15 ==> ({ let c = cp_varint_val::<u32>(@old.inp().skip(1)); cp_varint_at::<u32>(@old.inp().skip(1), 5, c)
                        && (c < 0x8000_0000 ==> l.size == c as usize) && @new.inp() =~= @old.inp().skip(1 + leb_end(@old.inp().skip(1))) })) }),""")
# field begin
s=s.replace("""(h / 16 == 0 ==> exists|k: int| cp_varint_at::<i16>(@old.inp().skip(1), 3, k, @new.last_read_field_id)
                            && @new.inp() =~= @old.inp().skip(1 + k))))""",
"""(h / 16 == 0 ==> (cp_varint_at::<i16>(@old.inp().skip(1), 3, @new.last_read_field_id)
                            && @new.inp() =~= @old.inp().skip(1 + leb_end(@old.inp().skip(1)))))))""")
# bytes-like (3 fns)
for acc in ['res->Ok_0.rem()', 'res->Ok_0.bview()', 'res->Ok_0@']:
    s=s.replace("""ensures res is Ok ==> exists|k: int, n: u32| cp_varint_at::<u32>(@old.inp(), 5, k, n) && %s.len() == n
                && @old.inp().skip(k) =~= %s + @new.inp(),
            res is Err ==> (cp_no_varint(@old.inp(), 5) || exists|k: int, n: u32| cp_varint_at::<u32>(@old.inp(), 5, k, n) && n > @old.inp().len() - k),""" % (acc, acc),
"""ensures res is Ok ==> ({ let n = cp_varint_val::<u32>(@old.inp()); cp_varint_at::<u32>(@old.inp(), 5, n) && %s.len() == n
                && @old.inp().skip(leb_end(@old.inp())) =~= %s + @new.inp() }),
            res is Err ==> (cp_no_varint(@old.inp(), 5) || cp_varint_val::<u32>(@old.inp()) > @old.inp().len() - leb_end(@old.inp())),""" % (acc, acc))
# map begin
s=s.replace("""ensures res is Ok ==> exists|k: int, c: u32| cp_varint_at::<u32>(@old.inp(), 5, k, c) && ({
                let m = res->Ok_0;""","""ensures res is Ok ==> ({
                let k = leb_end(@old.inp()); let c = cp_varint_val::<u32>(@old.inp()); let m = res->Ok_0;
                cp_varint_at::<u32>(@old.inp(), 5, c) &&""")
s=s.replace("""                (c == 0 ==> (m.size == 0 && @new.inp() =~= @old.inp().skip(k)))""","""                (c == 0 ==> (m.size == 0 && @new.inp() =~= @old.inp().skip(k)))""")
open(p,'w').write(s)
print(len(re.findall('exists', s)), 'exists left')
